"""C36 — fetching returns only verified files and uses every allowed attempt."""
import ast

from ..core import astutil as A
from ..core import cfg as CFG
from ..core import match as M
from ..core.model import dotted

META = {
    "technique": "must-pass-through rules on fetcher.fetch's CFG (every `return path` directly follows a _verify of that path inside the same try body; every path from a spawn to the final raise passes a _verify), raise-site enumeration inside the attempt loop (only 'out of urls' / 'cannot remove' may cut the attempt budget short), guard rule for the unverified discard (only when the target has no checksums at all), single-use-iterator rule in _verify (the checksum-name collection is iterated several times, so it must be re-iterable), comparison-completeness of _verify",
    "level": "Decides the structural clauses: a path is returned only straight after _verify raised nothing; the result of the LAST allowed attempt is verified before giving up; inside the loop a checksum failure / non-resumable failure discards the file and continues, a resumable one keeps the partial file and switches to the resume command, and nothing but url exhaustion or an unremovable file ends the loop early; the fetcher's exit code is trusted (file discarded) only for targets without any checksum; _verify compares size first and then every non-size checksum it has a handler for, over a collection that can be iterated repeatedly. Does NOT decide outcome sequences with concrete files.",
    "note": "",
}
META["technique"] += "; " + 'sentinel-comparison rule in _verify'
META["level"] += " Added after the second round of independent changes: " + "(R6) only the size handler's -1 is reported as a missing file; every real size, 0 included, reaches the size comparison."
META["technique"] += "; " + 'generic pack G on the anchored files (optional-flag shift, closures outliving a loop iteration, single-pass iterables consumed twice, %-templates built from data, in-place writes to class-level / memoised objects, generators mutating what they yielded, memo keys that are projections)'
CU = "pkgcore.fetch.custom"
BA = "pkgcore.fetch.base"


def _inert(st):
    """a statement without effect on the fetch state: `pass`, a bare constant, a logging call"""
    if isinstance(st, ast.Pass):
        return True
    if isinstance(st, ast.Expr):
        v = st.value
        if isinstance(v, ast.Constant):
            return True
        if isinstance(v, ast.Call) and (dotted(v.func) or "").split(".")[0] in ("logger", "logging", "warnings"):
            return True
    return False


def _is_verify(st, value=None):
    """`self._verify(<value>, ...)` as an expression statement"""
    if not (isinstance(st, ast.Expr) and isinstance(st.value, ast.Call) and A.unparse(st.value.func) == "self._verify" and st.value.args):
        return False
    return value is None or ast.dump(st.value.args[0]) == ast.dump(value)


def _mentions_unlink(stmts):
    return any("unlink" in (getattr(n, "attr", None) or getattr(n, "id", None) or "") for s in stmts for n in ast.walk(s) if isinstance(n, (ast.Attribute, ast.Name)))


def run(ctx):
    P = ctx.program
    ctx.explanation = META["level"]
    fe = P.func(CU, "fetcher.fetch")
    g = CFG.cfg_of(fe.node)
    verifies = [c for c in A.calls(fe.node) if A.unparse(c.func) == "self._verify"]
    # ---- R1 only verified paths are returned -------------------------------------------------------
    rets = [r for r in A.returns(fe.node) if r.value is not None]
    ctx.check("R1", fe, len(rets) >= 1, f"return-sites:{len(rets)}", f"{len(rets)} return sites")
    for r in rets:
        parent = getattr(r, "_parent", None)
        blk = parent.body if isinstance(parent, ast.Try) and r in parent.body else None
        ok = False
        if blk is not None:
            # the nearest effective statement before the return (logging / no-op lines do not count)
            before = [s for s in blk[:blk.index(r)] if not _inert(s)]
            ok = bool(before) and _is_verify(before[-1], r.value)
        ctx.check("R1", fe, ok, f"return-after-verify@{r.lineno - fe.node.lineno}", f"`return {A.unparse(r.value)}` directly follows `self._verify({A.unparse(r.value)}, ...)` in the same try body",
                  f"fetcher.fetch returns `{A.unparse(r.value)}` on a path where it was not just verified: an unverified (partial/corrupt) file is reported as fetched", node=r)
    for c in verifies:
        ctx.check("R1", fe, len(c.args) == 2 and A.unparse(c.args[1]) == "target" and not c.keywords, f"verify-strict@{c.lineno - fe.node.lineno}", "verification uses all required checksums of the target (default all_chksums)")
    ctx.floor("R1", 3)

    # ---- R2 last attempt examined ------------------------------------------------------------------------
    sp = [c for c in A.calls(fe.node) if dotted(c.func) == "spawn_bash"]
    ctx.require(len(sp) == 1, "fetcher.fetch: spawn of the fetch command not found")
    loops = [n for n in fe.node.body if isinstance(n, ast.For)]
    ctx.require(len(loops) == 1, "fetcher.fetch: attempt loop not found")
    lp = loops[0]
    # the give-up exit: the one `raise <remembered exception>` outside the attempt loop
    final = [r for r in A.raises(fe.node) if isinstance(r.exc, ast.Name) and r.cause is None and not A.contains_node(lp, r)]
    ctx.require(len(final) == 1, "fetcher.fetch: final `raise last_exc` not found")
    last = final[0].exc.id
    vn = {g.node_of(c) for c in verifies}
    fn_ = g.node_of(final[0])
    p = g.find_path([g.node_of(sp[0])], lambda n: n is fn_, avoid=lambda n: n in vn)
    ctx.check("R2", fe, p is None, "spawn-result-verified-before-giving-up", "every path from a fetch attempt to the final failure passes a _verify (the last attempt's file is looked at)",
              "fetcher.fetch can go from the last allowed attempt straight to `raise last_exc`: a correct file produced by the final attempt is never verified and the fetch is reported as failed", node=final[0], witness=g.fmt_path(p) if p else None)
    ctx.check("R2", fe, A.unparse(lp.iter) == "range(self.attempts)", "attempt-budget", "the loop runs the configured number of attempts")
    eff = [s for s in lp.body if not _inert(s)]
    top = eff[0] if eff and isinstance(eff[0], ast.Try) else None
    ctx.check("R2", fe, top is not None and any(A.unparse(c.func) == "self._verify" for c in A.calls(top.body)), "verify-at-loop-top", "each iteration starts by verifying what is there (an earlier attempt's result or a pre-existing file)")
    ctx.floor("R2", 3)

    # ---- R3 attempt budget is not cut short ----------------------------------------------------------------------
    # locals by role: the url iterator, the command handed to the spawn, the file path, the spawn's exit code
    um = M.one(fe.node, "$uris = iter(target.uri)")
    cm = M.one(fe.node, "spawn_bash($command % $_, ...)")
    pm = M.one(fe.node, "$path = pjoin(self.distdir, target.filename)")
    E = {"last": last}
    for m in (um, cm, pm):
        if m is not None:
            E.update(m.env)

    def url_exhaustion(r):
        """`raise errors.FetchFailed(...)` in the StopIteration handler of the try that draws the next url"""
        h = next((p_ for p_ in A.parents(r) if isinstance(p_, ast.ExceptHandler)), None)
        tr = getattr(h, "_parent", None)
        return h is not None and h.type is not None and A.unparse(h.type) == "StopIteration" and isinstance(tr, ast.Try) and um is not None and M.has(tr.body, "next($uris)", um.env)

    n_r = 0
    for r in [x for x in A.walk(lp) if isinstance(x, ast.Raise)]:
        n_r += 1
        e = A.unparse(r.exc) if r.exc is not None else "<re-raise>"
        rn = A.raised_name(r) if isinstance(r.exc, ast.Call) else None
        ok = rn == "errors.UnmodifiableFile" or (rn == "errors.FetchFailed" and url_exhaustion(r))
        h = next((p for p in A.parents(r) if isinstance(p, ast.ExceptHandler)), None)
        ctx.check("R3", fe, ok, f"loop-exit:{e[:40]}", f"`raise {e[:50]}` ends the attempts for a reason no further attempt can cure",
                  f"inside the attempt loop, `raise {e[:60]}`{' (handler for ' + A.unparse(h.type) + ')' if h is not None and h.type is not None else ''} gives up although attempts remain: a later attempt could still leave a correct file", node=r)
    ctx.check("R3", fe, n_r >= 2, f"loop-raise-sites:{n_r}", f"{n_r} raise sites in the loop inspected")
    hs = {A.unparse(h.type): h for h in (top.handlers if top is not None else []) if h.type is not None}
    ctx.check("R3", fe, list(hs) == ["errors.MissingDistfile", "errors.ChksumFailure", "errors.FetchFailed"], f"handler-order:{list(hs)}", "handlers go from the most specific failure to FetchFailed")
    for name in ("errors.ChksumFailure",):
        h = hs.get(name)
        if h is None:
            continue
        Eh = dict(E, exc=h.name)
        ctx.check("R3", fe, M.has(h.body, "os.unlink($path)", Eh) and M.has(h.body, "$command = self.command", Eh) and M.has(h.body, "$last = $exc", Eh), "corrupt-file-refetched", "a corrupted/oversized file is dropped and fetched afresh")
    h = hs.get("errors.FetchFailed")
    if h is not None:
        Eh = dict(E, exc=h.name)
        ifs = [n for n in h.body if isinstance(n, ast.If)]
        ok = len(ifs) == 1 and (ar := M.arms(ifs[0], "$exc.resumable", Eh)) is not None and M.has(ar[1], "os.unlink($path)", Eh) and M.has(ar[0], "$command = self.resume_command", Eh) and not _mentions_unlink(ar[0])
        ctx.check("R3", fe, ok, "partial-kept-for-resume", "a resumable partial file is kept and the resume command is used; a non-resumable one is removed",
                  "the FetchFailed handler no longer keeps resumable partial files for the resume command", node=h)
    h = hs.get("errors.MissingDistfile")
    if h is not None:
        ctx.check("R3", fe, M.has(h.body, "$command = self.command", E) and not _mentions_unlink(h.body), "missing-fetches-fresh", "a missing file is fetched with the plain command")
    ctx.floor("R3", 6)

    # ---- R4 unverified discard only without checksums -----------------------------------------------------------------
    post = [c for c in A.calls(lp) if dotted(c.func) == "os.unlink" and c.lineno > sp[0].lineno]
    ctx.require(len(post) == 1, "fetcher.fetch: post-spawn discard not found")
    gd = [p for p in A.parents(post[0]) if isinstance(p, ast.If)]
    ctx.require(gd, "fetcher.fetch: post-spawn discard is unguarded")
    test = gd[0].test
    conj = test.values if isinstance(test, ast.BoolOp) and isinstance(test.op, ast.And) else [test]
    ctx.check("R4", fe, any(M.pat("not target.chksums").matches(v) for v in conj), f"discard-only-without-checksums:{A.unparse(test)[:50]}", "the file is discarded on the exit code alone only when the target has no checksums at all (nothing to verify against)",
              f"after a non-zero exit the file is discarded under `{A.unparse(test)}`: for targets that do carry checksums the exit code is trusted over them, so a complete, matching file is deleted", node=gd[0])
    rm = M.one(fe.node, "$ret = spawn_bash(...)")
    ctx.check("R4", fe, rm is not None and any(M.pat("$ret != 0").matches(v, rm.env) for v in conj), "discard-only-on-failure", "and only when the fetcher reported failure")
    ctx.floor("R4", 2)

    # ---- R5 _verify -----------------------------------------------------------------------------------------------------
    ve = P.func(BA, "fetcher._verify")
    # the checksum-name collection, by role: what is spread into get_chksums()
    chm = M.one(ve.node, "get_chksums(file_location, *$chfs)")
    chfs = chm["chfs"] if chm else None
    EV = dict(chm.env) if chm else {}
    # single-use iterators must not be iterated more than once
    n_it = 0
    for t_, v, st in A.assignments(ve.node):
        if not isinstance(t_, ast.Name):
            continue
        lazy = isinstance(v, ast.GeneratorExp) or (isinstance(v, ast.Call) and dotted(v.func) in ("map", "filter", "iter", "zip", "reversed"))
        uses = [n for n in A.walk(ve.node) if isinstance(n, ast.Name) and n.id == t_.id and isinstance(n.ctx, ast.Load) and n.lineno > st.lineno]
        later_defs = [s2 for t2, v2, s2 in A.assignments(ve.node, t_.id) if s2.lineno > st.lineno]
        if later_defs:
            uses = [u for u in uses if u.lineno <= min(s.lineno for s in later_defs)]
        if t_.id == chfs:
            n_it = max(n_it, len(uses))
        if lazy:
            it_uses = [u for u in uses if isinstance(getattr(u, "_parent", None), (ast.comprehension, ast.For, ast.Starred)) or (isinstance(getattr(u, "_parent", None), ast.Call) and u in u._parent.args)]
            # two uses on mutually exclusive branches are fine; count per branch conservatively by line order in same block
            per_block = {}
            for u in it_uses:
                blk = next((id(p) for p in A.parents(u) if isinstance(p, ast.If)), 0)
                side = next((("body" if any(A.contains_node(s, u) for s in p.body) else "else") for p in A.parents(u) if isinstance(p, ast.If)), "")
                per_block.setdefault((blk, side), []).append(u)
            worst = max((len(v_) for v_ in per_block.values()), default=0)
            ctx.check("R5", ve, worst <= 1, f"single-use-iterator:{t_.id}", f"`{t_.id}` (lazy) is consumed once",
                      f"`{t_.id} = {A.unparse(v)[:60]}` is a one-shot iterator but is iterated {worst} times on one path: after the first pass it is empty, get_chksums() is called with no names and NO checksum is compared — a same-size corrupted file verifies", node=st)
    finals = [v for t_, v, _ in A.assignments(ve.node, chfs)] if chfs else []
    ctx.check("R5", ve, bool(finals) and isinstance(finals[-1], (ast.Call, ast.List, ast.ListComp)) and (not isinstance(finals[-1], ast.Call) or dotted(finals[-1].func) in ("list", "sorted", "tuple")), f"chfs-reiterable:{A.unparse(finals[-1])[:30] if finals else ''}", f"the checksum-name collection is a list/tuple (it is iterated {n_it} times)")
    ctx.check("R5", ve, chm is not None and M.has(ve.node, "$chfs = set(target.chksums).intersection(handlers)\n$chfs.discard('size')", EV), "all-nonsize-checksums", "every checksum of the target that has a handler (except size, done first) is compared")
    ctx.check("R5", ve, M.has(ve.node, "$missing = set(target.chksums).difference(handlers)\nif $missing:\n    raise errors.RequiredChksumDataMissing(...)"), "missing-handler-is-error", "with all_chksums a checksum without handler is an error, not skipped")
    cmp_ = [n for n in A.walk(ve.node) if isinstance(n, ast.If) and isinstance(n.test, ast.Compare) and isinstance(n.test.ops[0], ast.NotEq) and any(isinstance(s, ast.Raise) and (A.raised_name(s) or "").endswith("ChksumFailure") for s in n.body)]
    ctx.check("R5", ve, len(cmp_) == 3, f"mismatch-raises:{len(cmp_)}", "size, explicit-handler and default-handler comparisons each raise ChksumFailure on mismatch")
    ctx.check("R5", ve, M.has(ve.node, "$val = handlers['size'](file_location)\nif $val != target.chksums['size']:\n    if $val < target.chksums['size']:\n        raise errors.FetchFailed(file_location, $_, resumable=True)"), "short-file-resumable", "a short file is a resumable failure (kept for the resume command)")
    ctx.check("R5", ve, M.has(ve.node, "raise errors.MissingDistfile(file_location)") and M.has(ve.node, "raise errors.FetchFailed(file_location, $_, resumable=False)"), "missing-or-empty", "a missing file / an empty file without size information are failures")
    zi = [c for c in A.calls(ve.node) if dotted(c.func) == "zip"]
    al = chm is not None and M.one(ve.node, "$d = [target.chksums[$x] for $x in $chfs]", EV)
    al = al and M.one(ve.node, "$c = get_chksums(file_location, *$chfs)", al.env)
    ctx.check("R5", ve, len(zi) == 1 and bool(al) and M.pat("zip($d, $c, $chfs)").matches(zi[0], al.env) is not None, "default-path-aligned", "expected values, computed values and names are produced from the same ordered collection")
    gp = P.func(CU, "fetcher.get_path")
    ctx.check("R5", gp, M.has(gp.node, "if self._verify($$p, fetchable) is None:\n    return $$p"), "get_path-verified", "get_path returns a path only after _verify")
    ctx.floor("R5", 8)

    # ---- R6 "missing" is the size handler's sentinel, never a legitimate size ------------------------------------------
    import operator
    vfy = P.func("pkgcore.fetch.base", "fetcher._verify")
    OPS6 = {ast.Eq: operator.eq, ast.NotEq: operator.ne, ast.Lt: operator.lt, ast.LtE: operator.le, ast.Gt: operator.gt, ast.GtE: operator.ge}
    miss = [n for n in A.body_walk(vfy.node) if isinstance(n, ast.If) and isinstance(n.test, ast.Compare) and len(n.test.ops) == 1 and type(n.test.ops[0]) in OPS6
            and isinstance(n.test.left, ast.Name) and isinstance(A.try_literal(n.test.comparators[0]), int)
            and any(isinstance(r_, ast.Raise) and "MissingDistfile" in A.unparse(r_) for b_ in n.body for r_ in ast.walk(b_))]
    ctx.check("R6", vfy, bool(miss), "missing-sentinel-test-present", "_verify reports a missing file from the size handler's result")
    for n in miss:
        f_ = OPS6[type(n.test.ops[0])]
        k_ = A.try_literal(n.test.comparators[0])
        legit = [v for v in (0, 1, 7, 10 ** 9) if f_(v, k_)]
        ctx.check("R6", vfy, f_(-1, k_) and not legit, f"missing-only-on-sentinel:{A.unparse(n.test)}",
                  "only the handler's -1 (no such file) is reported as missing; every real size, 0 included, goes on to the size comparison",
                  f"_verify raises MissingDistfile on `{A.unparse(n.test)}`, which also holds for the real size(s) {legit}: a file of that size that IS the expected "
                  f"distfile (an empty one) is never accepted, all attempts are used up and the fetch fails", node=n)
    ctx.floor("R6", 2)


FC = "src/pkgcore/fetch/custom.py"
FB = "src/pkgcore/fetch/base.py"
MUTANTS = [
    {"name": "return-without-verify", "file": FC, "old": "        try:\n            self._verify(path, target)\n            return path\n        except errors.FetchFailed as exc:\n            last_exc = exc\n        raise last_exc", "new": "        if os.path.exists(path):\n            return path\n        raise last_exc", "rule": "R1"},
    {"name": "revert-final-verify", "file": FC, "old": "        # the final attempt's result hasn't been looked at yet\n        try:\n            self._verify(path, target)\n            return path\n        except errors.FetchFailed as exc:\n            last_exc = exc\n", "new": "", "rule": "R2"},
    {"name": "revert-chksumfailure-raise", "file": FC, "old": "            except errors.ChksumFailure as exc:\n                # corrupted or oversized: nothing to resume, drop it and use the\n                # remaining attempts (and uris) for a fresh fetch\n                last_exc = exc\n                try:\n                    os.unlink(path)\n                    command = self.command\n                except OSError as e:\n                    raise errors.UnmodifiableFile(path, e) from e\n", "new": "            except errors.ChksumFailure:\n                raise\n", "rule": "R3"},
    {"name": "partial-removed", "file": FC, "old": "                else:\n                    command = self.resume_command", "new": "                else:\n                    os.unlink(path)\n                    command = self.resume_command", "rule": "R3"},
    {"name": "discard-without-size", "file": FC, "old": "            if ret != 0 and not target.chksums:", "new": "            if ret != 0 and \"size\" not in target.chksums:", "rule": "R4"},
    {"name": "discard-always", "file": FC, "old": "            if ret != 0 and not target.chksums:", "new": "            if ret != 0:", "rule": "R4"},
    {"name": "chfs-generator", "file": FB, "old": "        chfs = set(target.chksums).intersection(handlers)\n        chfs.discard(\"size\")\n        chfs = list(chfs)", "new": "        chfs = (x for x in target.chksums if x in handlers and x != \"size\")", "rule": "R5"},
    {"name": "mismatch-ignored", "file": FB, "old": "                if desired != got:\n                    raise errors.ChksumFailure(", "new": "                if desired != got and chf == \"size\":\n                    raise errors.ChksumFailure(", "rule": "R5"},
]
TWINS = [
    {"name": "chfs-sorted-list", "file": FB, "old": "        chfs = list(chfs)", "new": "        chfs = sorted(chfs)"},
]
