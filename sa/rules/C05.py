"""C05 — atom intersection is symmetric, complete and witnessed (structural clauses)."""
import ast

from ..core import astutil as A
from ..core import match as M
from ..core.mirror import canon, clone, swap
from ..core.model import dotted

META = {
    "technique": "mirror analysis: every guarded return of atom.intersects is compared with its self<->other swap modulo commutativity (statement either self-symmetric or paired with a mirror statement); after the normalising swap only the normalised names may be used and the both-ranged arm must be symmetric in them; operator-exhaustiveness of the dispatch against the valid_ops literal; glob-semantics agreement with the matcher; token-integrity rule (the USE tokens reach the conflict test unrewritten)",
    "level": "Decides: (R1) intersects() is syntactically symmetric under swapping its operands (a necessary condition of order-independence: breaking the mirror of any one arm breaks symmetry for the operator pair that arm serves); (R2) every operator of valid_ops plus '=*' and '' is dispatched before the final NotImplementedError; (R3) the glob arms assume the same =* semantics that matching implements; (R4) the slot/sub-slot/repository/USE pre-checks compare like with like. Does NOT decide completeness or witnesses for concrete atoms. (R5) the USE conflict test compares the tokens as written, use-dep default markers included.",
    "note": "VersionMatch(...).match and str.startswith are opaque; symmetry is syntactic modulo and/or/==/^ commutativity",
}
META["technique"] += "; " + 'dominator rule on intersects(): conflict checks dominate every non-False verdict; direction rule for the glob-revision shortcut'
META["level"] += " Added after the second round of independent changes: " + '(R6) every return of intersects() other than `return False` is dominated by the key, slot, sub-slot, repository and USE conflict checks; (R3) the `glob carries a revision -> nothing else matches` shortcut only serves upper-bounded ranges.'
META["technique"] += "; " + 'generic pack G on the anchored files (optional-flag shift, closures outliving a loop iteration, single-pass iterables consumed twice, %-templates built from data, in-place writes to class-level / memoised objects, generators mutating what they yielded, memo keys that are projections)'


def is_noop(st):
    """statements that carry no behaviour: pass, a bare constant (docstring / placeholder), a logging or warning call"""
    if isinstance(st, ast.Pass):
        return True
    if isinstance(st, ast.Expr):
        if isinstance(st.value, ast.Constant):
            return True
        if isinstance(st.value, ast.Call) and (dotted(st.value.func) or "").startswith(("logger.", "logging.", "warnings.")):
            return True
    return False


def effective(stmts):
    return [s for s in stmts if not is_noop(s)]


def cleaned(node):
    """structural copy without no-op statements at any depth (for canonical comparison only)"""
    if isinstance(node, list):
        return [cleaned(n) for n in node if not is_noop(n)]
    new = clone(node)
    for n in ast.walk(new):
        for fld in ("body", "orelse", "finalbody"):
            v = getattr(n, fld, None)
            if isinstance(v, list) and v and isinstance(v[0], ast.stmt):
                setattr(n, fld, [x for x in v if not is_noop(x)])
    return new


def ccanon(node):
    return canon(cleaned(node))


def expr(src):
    return ast.parse(src, mode="eval").body


def first_is(stmts, text):
    eff = effective(stmts)
    return bool(eff) and A.unparse(eff[0]) == text


def tests_char_in_op(test, ch, owner=None):
    """`'<' in X.op` occurs in the test (X == owner when given)"""
    for n in ast.walk(test):
        if isinstance(n, ast.Compare) and len(n.ops) == 1 and isinstance(n.ops[0], ast.In) and A.is_const(n.left, ch):
            c = n.comparators[0]
            if isinstance(c, ast.Attribute) and c.attr == "op" and (owner is None or A.unparse(c.value) == owner):
                return True
    return False


def top_level(fn):
    return effective(fn.body)


def run(ctx):
    P = ctx.program
    ctx.explanation = META["level"]
    f = P.func("pkgcore.ebuild.atom", "atom.intersects")
    a, b = f.params()[0], f.params()[1]
    body = top_level(f.node)

    # locate the normalising swap by its role: the top-level If whose arms (re)bind a name to one of the operands
    def aliases_operand(x):
        if not isinstance(x, ast.Assign):
            return False
        v = x.value
        vs = v.elts if isinstance(v, ast.Tuple) else [v]
        return all(isinstance(e, ast.Name) and e.id in (a, b) for e in vs)

    swap_idx = None
    for i, st in enumerate(body):
        if isinstance(st, ast.If) and any(aliases_operand(x) for x in ast.walk(st)):
            swap_idx = i
            break
    ctx.require(swap_idx is not None, "atom.intersects: normalising `ranged` assignment not found; idiom changed")
    pre = body[:swap_idx]
    post = body[swap_idx + 1:]
    canons = [ccanon(s) for s in pre]
    mirrors = [canon(swap(cleaned(s), a, b)) for s in pre]
    for i, st in enumerate(pre):
        if isinstance(st, (ast.If, ast.For, ast.Assign, ast.Return)):
            sym = mirrors[i] == canons[i]
            paired = any(mirrors[i] == canons[j] for j in range(len(pre)) if j != i)
            head = A.unparse(st.test if isinstance(st, ast.If) else st)[:70]
            ctx.check("R1", f, sym or paired, f"mirror@{head}",
                      f"statement `{head}` is symmetric under {a}<->{b} or has a mirror statement",
                      f"`{head}...` has no mirror under swapping the operands: intersects(a, b) and intersects(b, a) can differ", node=st)
    ctx.floor("R1", 9)
    # normalising swap: `if self.op in RANGED: ranged = self else: ranged, other = other, self`
    sw = body[swap_idx]
    ranged_ops = A.try_literal(sw.test.comparators[0]) if isinstance(sw.test, ast.Compare) and isinstance(sw.test.ops[0], ast.In) else None
    ctx.require(ranged_ops is not None and A.unparse(sw.test.left) == f"{a}.op", "atom.intersects: swap condition is not `self.op in (<ranged ops>)`")
    arm_t = [A.unparse(s) for s in effective(sw.body)]
    arm_f = [A.unparse(s) for s in effective(sw.orelse)]
    shape = M.pat(f"if {a}.op in $_:\n    $r = {a}\nelse:\n    $r, {b} = {b}, {a}").matches(sw)
    # the name the ranged operand goes by after the swap (whatever it is spelled)
    if shape is not None:
        r = shape["r"]
    else:
        stored = [n.id for x in ast.walk(sw) if isinstance(x, ast.Assign) for n in ast.walk(x) if isinstance(n, ast.Name) and isinstance(n.ctx, ast.Store) and n.id not in (a, b)]
        r = stored[0] if stored else "ranged"
    ctx.check("R1", f, shape is not None and len(arm_t) == 1 and len(arm_f) == 1, "swap-shape",
              "the ranged operand is named by one local, the other one `other`, whichever side it came from", f"swap arms are {arm_t} / {arm_f}", node=sw)
    # after the swap the receiver must not be mentioned any more
    for st in post:
        uses = [n for n in ast.walk(st) if isinstance(n, ast.Name) and n.id == a]
        ctx.check("R1", f, not uses, f"post-swap-uses-{a}@{A.unparse(st)[:40]}", f"after the swap `{a}` is no longer referenced", node=st)
    # both-ranged arm symmetric in (ranged, other)
    both = [s for s in post if isinstance(s, ast.If) and tests_char_in_op(s.test, "<") and tests_char_in_op(s.test, ">")]
    ctx.require(both, "atom.intersects: both-ranged arm not found")
    br = both[0]
    br_body = cleaned(br.body)
    ctx.check("R1", f, canon(swap(br_body, r, b)) == canon(br_body), "both-ranged-symmetric",
              "the both-ranged arm checks each endpoint against the other atom symmetrically",
              "the both-ranged arm is not symmetric in (ranged, other): e.g. only one endpoint is checked (<=2 vs >2 false positive) or order matters", node=br)

    # ---- R2 operator exhaustiveness ------------------------------------------------
    amod = P.module("pkgcore.ebuild.atom")
    vo = A.try_literal(amod.assigns.get("valid_ops"))
    ctx.require(isinstance(vo, (set, frozenset)), "atom.valid_ops literal not found")
    all_ops = set(vo) | {"=*", ""}
    covered = set()

    def is_op_attr(n):
        return isinstance(n, ast.Attribute) and n.attr == "op"

    for n in A.body_walk(f.node):
        if isinstance(n, ast.Compare):
            if not any(is_op_attr(x) for x in ast.walk(n)):
                continue
            consts = [c.value for c in ast.walk(n) if isinstance(c, ast.Constant) and isinstance(c.value, str)]
            if any(isinstance(o, (ast.In,)) for o in n.ops) and isinstance(n.left, ast.Constant):
                # "<" in x.op  -> covers every operator containing that character
                covered |= {o for o in all_ops if n.left.value in o}
            else:
                covered |= set(consts)
        elif isinstance(n, ast.UnaryOp) and isinstance(n.op, ast.Not) and is_op_attr(n.operand):
            covered.add("")
    for op in sorted(all_ops):
        ctx.check("R2", f, op in covered, f"op-dispatched:{op or 'none'}", f"operator {op!r} is dispatched somewhere in intersects",
                  f"operator {op!r} is in valid_ops but never tested in intersects(): the final NotImplementedError is reachable")
    ctx.check("R2", f, set(ranged_ops) == {o for o in vo if "<" in o or ">" in o}, "ranged-set", f"the ranged operator tuple {ranged_ops} is exactly the ops containing < or >")
    last = body[-1]  # last effective statement (no-op statements are not in `body`)
    ctx.check("R2", f, isinstance(last, ast.Raise) and (A.raised_name(last) or "").split(".")[-1] == "NotImplementedError", "fallthrough-raises", "falling through every arm raises NotImplementedError instead of answering")
    ctx.floor("R2", 9)

    # ---- R3 glob semantics agree with matching ---------------------------------------
    sg = P.cls("pkgcore.restrictions.values", "StrGlobMatch")
    boundary_aware = any(isinstance(n, ast.Constant) and n.value in (".", "_", "-r") for n in ast.walk(sg.methods["match"].node))
    rf = P.func("pkgcore.ebuild.atom", "atom.restrictions")
    uses_raw = any((dotted(c.func) or "").endswith("StrGlobMatch") for c in A.calls(rf.node))
    glob_test = canon(expr(f"{b}.op == '=*'"))
    glob_ranged = [s for s in post if isinstance(s, ast.If) and canon(s.test) == glob_test]
    ctx.require(glob_ranged, "atom.intersects: glob-vs-ranged arm not found")
    decides_by_prefix_only = all(
        isinstance(r_.value, ast.Call) and A.call_attr(r_.value) == "startswith" or A.unparse(r_.value) in ("True", "False")
        for r_ in ast.walk(glob_ranged[0]) if isinstance(r_, ast.Return)
    )
    ctx.check("R3", f, not (uses_raw and not boundary_aware and decides_by_prefix_only), "glob-raw-prefix-vs-ranged",
              "glob-vs-range intersection and glob matching use the same =* semantics",
              "matching treats =* as a raw string prefix (=1* matches 10) but the glob-vs-range arm only tests whether the range endpoint starts with the glob: "
              "=cat/pkg-1* and >cat/pkg-2 are reported disjoint although cat/pkg-10 matches both", node=glob_ranged[0])

    # an exact version against a glob: the answer IS "does the glob match it", so the arm must use the matcher's own
    # predicate.  While matching is the raw prefix test of StrGlobMatch on fullver, that is `<exact>.fullver.startswith(<glob>.fullver)`.
    if uses_raw and not boundary_aware:
        arms = [s for s in ast.walk(f.node) if isinstance(s, ast.If) and isinstance(s.test, ast.Compare) and len(s.test.ops) == 1 and isinstance(s.test.ops[0], ast.Eq)
                and A.is_const(s.test.comparators[0], "=*") and any(isinstance(p_, ast.If) and isinstance(p_.test, ast.Compare) and A.is_const(p_.test.comparators[0], "=")
                                                                    for p_ in A.parents(s))]
        for arm in arms:
            globside = A.unparse(arm.test.left).split(".")[0]
            for r_ in (x for st_ in arm.body for x in ast.walk(st_) if isinstance(x, ast.Return)):
                v = r_.value
                ok = (isinstance(v, ast.Call) and A.call_attr(v) == "startswith" and A.unparse(v.func.value).endswith(".fullver") and len(v.args) == 1
                      and A.unparse(v.args[0]) == f"{globside}.fullver" and A.unparse(v.func.value).split(".")[0] != globside)
                ctx.check("R3", f, ok, f"exact-vs-glob-uses-matcher-predicate:{globside}", "an exact version intersects a glob exactly when the glob's raw prefix test (the matcher's) accepts it",
                          f"the `=` vs `=*` arm answers with `{A.unparse(v)[:60]}` while matching a `=*` atom is StrGlobMatch on fullver (raw prefix): the two disagree for some version "
                          f"(e.g. =cat/pkg-1* matches cat/pkg-12, which this arm denies or vice versa)", node=r_)
    # a glob that carries a revision (=1-r1*) still matches greater versions (1-r10): the "pinned, nothing else matches"
    # shortcut may only serve upper-bounded ranges
    pins = [n for n in ast.walk(glob_ranged[0]) if isinstance(n, ast.If) and isinstance(n.test, ast.Attribute) and n.test.attr == "revision"
            and isinstance(n.test.value, ast.Name) and n.test.value.id == b and first_is(n.body, "return False")]
    for pin in pins:
        under_lt = False
        child, par = pin, getattr(pin, "_parent", None)
        while par is not None and par is not glob_ranged[0]:
            if isinstance(par, ast.If) and child in par.body and any(isinstance(c, ast.Constant) and c.value == "<" for c in ast.walk(par.test)) \
                    and not any(isinstance(c, ast.Constant) and c.value == ">" for c in ast.walk(par.test)):
                under_lt = True
            child, par = par, getattr(par, "_parent", None)
        ctx.check("R3", f, under_lt, "glob-revision-pin-direction",
                  "the `glob has a revision -> nothing smaller matches` shortcut is confined to upper-bounded ('<', '<=') ranges",
                  f"`if {b}.revision: return False` in the glob-vs-range arm also serves '>' / '>=' ranges: =cat/pkg-1-r1* and >cat/pkg-1-r5 share "
                  f"cat/pkg-1-r10 (a raw prefix match) but are reported disjoint", node=pin)

    # tilde-vs-range arm: the fallback must serve both lower-bounded operators
    tilde_test = canon(expr(f"{b}.op == '~'"))
    tilde = [s for s in post if isinstance(s, ast.If) and canon(s.test) == tilde_test]
    ctx.require(tilde, "atom.intersects: tilde-vs-range arm not found")

    def is_ranged_op(n):
        return is_op_attr(n) and isinstance(n.value, ast.Name) and n.value.id == r

    fb = [x for x in ast.walk(tilde[0]) if isinstance(x, ast.Return) and x.value is not None and any(is_ranged_op(n) for n in ast.walk(x.value))]
    ctx.require(fb, "atom.intersects: tilde-vs-range fallback not found")
    fb.sort(key=lambda x: (x.lineno, x.col_offset))
    ops = set()
    for n in ast.walk(fb[-1].value):
        if isinstance(n, ast.Compare) and is_ranged_op(n.left):
            v = A.try_literal(n.comparators[0])
            ops |= set(v) if isinstance(v, (tuple, list, set, frozenset)) else {v}
    ctx.check("R3", f, ops == {">", ">="}, "tilde-fallback-ops:" + ",".join(sorted(map(str, ops))),
              "~V vs a lower-bounded range on a revision of V: the fallback serves both '>' and '>='",
              f"the ~-vs-range fallback only serves {sorted(map(str, ops))}: ~cat/pkg-2 and >=cat/pkg-2-r1 share cat/pkg-2-r1 but are reported disjoint", node=fb[-1])

    # ---- R4 pre-checks compare like with like -------------------------------------------
    for attr in ("slot", "subslot", "repo_id"):
        want = canon(expr(f"{a}.{attr} is not None and {b}.{attr} is not None and {a}.{attr} != {b}.{attr}"))
        differ = canon(expr(f"{a}.{attr} != {b}.{attr}"))
        hits = [s for s in pre if isinstance(s, ast.If) and any(isinstance(n, ast.Compare) and canon(n) == differ for n in ast.walk(s.test))]
        ok = bool(hits) and canon(hits[0].test) == want and first_is(hits[0].body, "return False")
        ctx.check("R4", f, ok, f"precheck:{attr}", f"{attr}: only a conflict when both sides set it and the values differ")
    key = [s for s in pre if isinstance(s, ast.If) and any(isinstance(n, ast.Attribute) and n.attr == "key" for n in ast.walk(s.test))]
    ctx.check("R4", f, bool(key) and canon(key[0].test) == canon(expr(f"{a}.key != {b}.key")) and first_is(key[0].body, "return False"),
              "precheck:key", "different category/package never intersect")
    unv = [s for s in pre if isinstance(s, ast.If) and canon(s.test) == canon(expr(f"not {a}.op or not {b}.op"))]
    ctx.check("R4", f, bool(unv) and first_is(unv[0].body, "return True"), "unversioned-intersects", "an unversioned atom intersects any version constraint")
    ctx.floor("R4", 5)

    # ---- R5 USE tokens reach the conflict test whole ------------------------------------------
    # the conflict set, by its role: the one local computed from the operands' USE tokens
    def reads_use(n):
        return isinstance(n, ast.Attribute) and n.attr == "use" and isinstance(n.value, ast.Name) and n.value.id in (a, b)

    uf = [st for st in A.body_walk(f.node) if isinstance(st, ast.Assign) and len(st.targets) == 1 and isinstance(st.targets[0], ast.Name)
          and any(reads_use(n) for n in A.walk(st.value))]
    ctx.require(len(uf) == 1, "atom.intersects: USE conflict set `flags` not found")
    fl = uf[0].targets[0].id
    LOSSY = {"partition", "split", "rsplit", "rstrip", "strip", "replace", "sub", "removesuffix"}
    lossy = [c for c in A.calls(uf[0].value) if A.call_attr(c) in LOSSY or (isinstance(c.func, ast.Attribute) and c.func.attr in LOSSY)]
    srcs = {A.unparse(n) for n in A.walk(uf[0].value) if isinstance(n, ast.Attribute) and n.attr == "use"}
    ctx.check("R5", f, not lossy and srcs == {f"{a}.use", f"{b}.use"}, f"use-tokens-whole:{A.unparse(lossy[0])[:40] if lossy else ''}", "the conflict test compares the USE tokens as written, default markers (+)/(-) included",
              f"the USE tokens are rewritten (`{A.unparse(lossy[0])[:60] if lossy else '?'}`) before the conflict test: flag(+) and -flag(-) are then taken for opposite demands on one flag, although a package without the flag in IUSE satisfies both — intersecting atoms are reported disjoint", node=uf[0])
    loop = [st for st in A.body_walk(f.node) if isinstance(st, ast.For) and isinstance(st.iter, ast.Name) and st.iter.id == fl and st.lineno > uf[0].lineno]
    ok = False
    if len(loop) == 1 and isinstance(loop[0].target, ast.Name):
        t = loop[0].target.id
        conflict = canon(expr(f"{t}[0] == '-' and {t}[1:] in {fl}"))
        ok = any(isinstance(s, ast.If) and canon(s.test) == conflict and first_is(s.body, "return False") for s in effective(loop[0].body))
    ctx.check("R5", f, ok, "conflict-is-same-token-both-signs", "a conflict is the same token demanded with and without '-'")
    ctx.floor("R5", 2)

    # ---- R6 no verdict other than "disjoint" before every non-version constraint was reconciled ---------------------
    from ..core.cfg import cfg_of
    g = cfg_of(f.node)
    dom = g.dominators()
    guards = {}
    for attr in ("key", "slot", "subslot", "repo_id", "use"):
        for st in A.body_walk(f.node):
            if isinstance(st, ast.If):
                who = {n.value.id for n in ast.walk(st.test) if isinstance(n, ast.Attribute) and n.attr == attr and isinstance(n.value, ast.Name)}
                if {a, b} <= who and any(isinstance(r, ast.Return) and isinstance(r.value, ast.Constant) and r.value.value is False for x in st.body for r in ast.walk(x)):
                    guards[attr] = st
                    break
    ctx.require(set(guards) == {"key", "slot", "subslot", "repo_id", "use"}, f"atom.intersects: conflict checks found only for {sorted(guards)}")
    n_ret = 0
    for r in A.returns(f.node):
        if isinstance(r.value, ast.Constant) and r.value.value is False:
            continue
        n_ret += 1
        rn = g.node_of(r)
        missing = [attr for attr, st in guards.items() if g.node_of(st) not in dom.get(rn, ())]
        ctx.check("R6", f, not missing, "verdict-before-conflict-check:" + ",".join(missing),
                  f"`{A.unparse(r)[:50]}` is reached only after the key / slot / sub-slot / repository / USE conflict checks",
                  f"`{A.unparse(r)[:60]}` (line {r.lineno}) can be reached without passing the {', '.join(missing)} conflict check: two atoms that "
                  f"contradict each other there are reported as intersecting although no package matches both", node=r)
    ctx.require(n_ret >= 10, f"atom.intersects: only {n_ret} deciding returns")
    ctx.floor("R6", 10)

MUTANTS = [
    {"name": "glob-exact-asymmetric", "file": "src/pkgcore/ebuild/atom.py", "old": "                return other.fullver.startswith(self.fullver)\n            return restricts.VersionMatch(self.op", "new": "                return other.fullver.startswith(self.version)\n            return restricts.VersionMatch(self.op", "rule": "R1"},
    {"name": "slot-check-one-sided", "file": "src/pkgcore/ebuild/atom.py", "old": "        if self.slot is not None and other.slot is not None and self.slot != other.slot:", "new": "        if self.slot is not None and self.slot != other.slot:", "rule": "R1"},
    {"name": "both-ranged-one-endpoint", "file": "src/pkgcore/ebuild/atom.py", "old": "            ).match(ranged) and restricts.VersionMatch(\n                ranged.op, ranged.version, ranged.revision\n            ).match(other)", "new": "            ).match(ranged)", "rule": "R1"},
    {"name": "tilde-glob-mirror-broken", "file": "src/pkgcore/ebuild/atom.py", "old": '        if other.op == "=*" and self.op == "~":\n            return self.fullver.startswith(other.version)', "new": '        if other.op == "=*" and self.op == "~":\n            return self.fullver.startswith(other.fullver)', "rule": "R1"},
    {"name": "use-conflict-one-direction", "file": "src/pkgcore/ebuild/atom.py", "old": "            flags = set(self.use) ^ set(other.use)", "new": "            flags = set(self.use) - set(other.use)", "rule": "R1"},
    {"name": "unversioned-returns-false", "file": "src/pkgcore/ebuild/atom.py", "old": "        if not self.op or not other.op:\n            return True", "new": "        if not self.op and not other.op:\n            return True", "rule": "R4"},
]
MUTANTS += [
    {"name": "tilde-fallback-narrowed", "file": "src/pkgcore/ebuild/atom.py", "old": 'return ranged.op in (">", ">=") and restricts.VersionMatch(', "new": 'return ranged.op == ">" and restricts.VersionMatch(', "rule": "R3"},
]
MUTANTS += [
    {"name": "use-defaults-stripped", "file": "src/pkgcore/ebuild/atom.py", "old": "            flags = set(self.use) ^ set(other.use)", "new": "            flags = {x.partition(\"(\")[0] for x in self.use} ^ {x.partition(\"(\")[0] for x in other.use}", "rule": "R5"},
]
TWINS = [
    {"name": "commuted-eq", "file": "src/pkgcore/ebuild/atom.py", "old": "        if self.key != other.key:\n            return False", "new": "        if other.key != self.key:\n            return False"},
]
