"""C20 — unmerge removes exactly what it owns and never base directories (structural clauses)."""
import ast

from ..core import generic as G
from ..core import astutil as A
from ..core import match as M
from ..core.cfg import cfg_of
from ..core.model import dotted

META = {
    "technique": "who-may-remove rule (removal primitives reachable from unmerge_contents are an allow-list that never follows symlinks or recurses), iteration-source rule for the two unmerge passes, literal table of the merge engine's cset wiring (replace mode removes old minus install), ordering/registration table of the base-system protection trigger against the unmerge trigger",
    "level": "Decides: (R1) unmerge_contents removes non-directories with unlink_if_exists over ALL non-directory entries (iterdirs(invert=True), unfiltered) and directories with os.rmdir in reverse-sorted order, tolerating ENOTEMPTY, and nothing else in fs/ops.py's unmerge path can remove anything (no rmtree/removedirs/remove); (R2) in replace mode the 'uninstall' cset is get_remove_cset = old_cset.difference(install), both operands resolved the same way (no realpath on one side only), and plain uninstall aliases old_cset; (R3) BaseSystemUnmergeProtection runs on the same hook and cset as the unmerge trigger with a lower priority (execute_hook sorts ascending), strips every preserved base directory under the engine offset, lists the base directories, and both are registered default triggers. Does NOT decide concrete trees.",
    "note": "unlink(2) does not follow symlinks; rmdir(2) refuses non-empty directories (POSIX)",
}
META["technique"] += "; " + 'class-level / memoised write ban and effect analysis on the engine constructors'
META["level"] += " Added after the second round of independent changes: " + '(R4) no function of engine.py / triggers.py / fs/ops.py writes in place to a class-level table; MergeEngine.install/uninstall/replace work on copies.'
META["technique"] += "; " + 'generic pack G on the anchored files (optional-flag shift, closures outliving a loop iteration, single-pass iterables consumed twice, %-templates built from data, in-place writes to class-level / memoised objects, generators mutating what they yielded, memo keys that are projections)'
META["technique"] += "; class-attribute resolution through the bases for the triggers' exception-suppression flag"
META["level"] += " (R5) the triggers that call merge_contents / unmerge_contents and the base-system protection resolve suppress_exceptions to False, the flag execute_hook consults before swallowing an exception."
OPS = "pkgcore.fs.ops"
ENG = "pkgcore.merge.engine"
TRG = "pkgcore.merge.triggers"
BASE_DIRS = {"/usr", "/usr/lib", "/usr/lib64", "/usr/lib32", "/usr/bin", "/usr/sbin", "/bin", "/sbin", "/lib", "/lib32", "/lib64", "/etc", "/var", "/home", "/root"}
REMOVERS = {"os.unlink", "os.remove", "os.rmdir", "os.removedirs", "shutil.rmtree", "unlink_if_exists", "os.rename", "os.replace", "shutil.move", "os.truncate"}


def run(ctx):
    P = ctx.program
    ctx.explanation = META["level"]
    um = P.func(OPS, "unmerge_contents")
    cs = um.params()[0]
    rem = [(dotted(c.func), c) for c in A.calls(um.node) if dotted(c.func) in REMOVERS]
    kinds = sorted({d for d, _ in rem})
    ctx.check("R1", um, kinds == ["os.rmdir", "unlink_if_exists"], "removal-primitives:" + ",".join(kinds), "unmerge_contents removes only with unlink_if_exists and os.rmdir",
              f"unmerge_contents removes with {kinds}: anything beyond unlink/rmdir can follow symlinks or delete unlisted content")
    loops = [n for n in um.node.body if isinstance(n, ast.For)]
    ctx.require(len(loops) == 2, "unmerge_contents: expected a non-directory pass and a directory pass")
    first, second = loops
    src1 = A.unparse(first.iter)
    # identifiers (called functions, attributes, names) that spell a filter; string constants are not behaviour here
    idents = {n.id for n in ast.walk(first.iter) if isinstance(n, ast.Name)} | {n.attr for n in ast.walk(first.iter) if isinstance(n, ast.Attribute)}
    ok1 = M.has(first.iter, f"{cs}.iterdirs(invert=True)") and not any(isinstance(n, (ast.GeneratorExp, ast.ListComp, ast.SetComp, ast.DictComp)) for n in ast.walk(first.iter)) and not any("filter" in i for i in idents)
    ctx.check("R1", um, ok1, "nondir-pass-source", "the first pass walks every non-directory entry (iterdirs(invert=True), unfiltered)",
              f"the non-directory pass iterates `{src1}`: entry kinds left out (fifos, device nodes, ...) are never removed and keep their directories non-empty", node=first)
    body_calls = [dotted(c.func) for c in A.calls(first)]
    cond = [n for n in ast.walk(first) if isinstance(n, (ast.If, ast.Continue))]
    ctx.check("R1", um, "unlink_if_exists" in body_calls and not cond, "nondir-pass-unconditional", "every non-directory entry is unlinked unconditionally", node=first)
    ul = [c for d, c in rem if d == "unlink_if_exists"]
    ctx.check("R1", um, len(ul) == 1 and A.unparse(ul[0].args[0]) == f"{A.unparse(first.target)}.location", "unlink-target", "the unlinked path is the entry's own location")
    # directory pass: sorted reverse, rmdir, tolerant errno
    lst = A.unparse(second.iter)
    # the list variable is located by its role (what the second loop iterates), never by its spelling
    srcs = [v for t, v, _ in A.assignments(um.node, lst)] if isinstance(second.iter, ast.Name) else [second.iter]
    ctx.check("R1", um, any(M.has(v, f"{cs}.iterdirs()") for v in srcs), "dir-pass-source", "the second pass walks the directory entries")
    sorts = [c for c in A.calls(um.node) if A.call_attr(c) == "sort" and A.unparse(c.func.value) == lst]
    rev = bool(sorts) and any(k.arg == "reverse" and A.try_literal(k.value) is True for k in sorts[0].keywords)
    ctx.check("R1", um, rev or any(M.has(v, "reversed(sorted(...))") for v in srcs), "dirs-deepest-first", "directories are removed deepest first (reverse sorted)", "unmerge_contents does not remove directories in reverse-sorted order: parents are tried before their children and stay behind")
    rd = [c for d, c in rem if d == "os.rmdir"]
    ctx.check("R1", um, len(rd) == 1 and A.unparse(rd[0].args[0]) == f"{A.unparse(second.target)}.location" and any(p is second for p in A.parents(rd[0])), "rmdir-target", "os.rmdir is applied to each directory entry's own location")
    errnos = {n.attr for n in ast.walk(second) if isinstance(n, ast.Attribute) and isinstance(n.value, ast.Name) and n.value.id == "errno"}
    ctx.check("R1", um, "ENOTEMPTY" in errnos, "tolerates-nonempty", "a non-empty directory is left in place (ENOTEMPTY tolerated), not an error")
    order = first.lineno < second.lineno
    ctx.check("R1", um, order, "files-before-dirs", "non-directories are removed before directories")
    # who may remove in fs/ops.py at all
    allowed = {"unmerge_contents": {"os.rmdir", "unlink_if_exists"}, "do_link": {"unlink_if_exists", "os.rename"}, "copyfile": {"os.rename"}, "merge_contents": {"os.unlink"}}
    for f in P.module(OPS).funcs.values():
        for c in A.calls(f.node):
            d = dotted(c.func)
            if d in REMOVERS:
                ctx.check("R1", f, d in allowed.get(f.qual, set()), f"who-may-remove:{f.qual}:{d}", f"{f.qual} uses {d} (allow-listed)", f"{f.qual} calls {d}, which is not an allow-listed removal primitive of fs/ops.py", node=c)
    ctx.floor("R1", 12)

    # ---- R2 engine csets ---------------------------------------------------------------
    ME = P.cls(ENG, "MergeEngine")
    assigns = {}
    for st in ME.node.body:
        if isinstance(st, ast.Assign) and isinstance(st.targets[0], ast.Subscript) and A.unparse(st.targets[0].value) == "replace_csets":
            assigns[A.try_literal(st.targets[0].slice)] = A.unparse(st.value)
    ctx.check("R2", ME, assigns.get("uninstall") == "'get_remove_cset'", "replace-uninstall-source", "in replace mode the uninstall cset comes from get_remove_cset", f"replace_csets['uninstall'] = {assigns.get('uninstall')}")
    grc = P.func(ENG, "MergeEngine.get_remove_cset")
    r = A.returns(grc.node)
    gp = grc.params()
    ctx.require(len(gp) >= 2, "get_remove_cset: expected (engine, csets) parameters")
    ctx.check("R2", grc, len(r) == 1 and r[0].value is not None and M.pat(f"{gp[1]}['old_cset'].difference({gp[1]}['install'])").matches(r[0].value) is not None, "remove-cset-shape",
              "get_remove_cset is old_cset minus what the new package installs", f"get_remove_cset returns `{A.unparse(r[0].value) if r and r[0].value is not None else None}`")
    uc = ME.assigns.get("uninstall_csets")
    lit = {A.try_literal(k): A.unparse(v) for k, v in zip(uc.keys, uc.values)} if isinstance(uc, ast.Dict) else {}
    ctx.check("R2", ME, lit.get("uninstall") == "partial(alias_cset, 'old_cset')" and lit.get("old_cset") == "'get_uninstall_livefs_intersect'", "uninstall-alias", "plain uninstall removes old_cset (the livefs intersection of the recorded contents)", f"uninstall_csets = {lit}")
    # both operands of the difference are resolved the same way: neither intersect passes realpath=True
    helper = P.func(ENG, "MergeEngine._get_livefs_intersect_cset")
    pos = helper.node.args.posonlyargs + helper.node.args.args
    by_name = dict(zip([a.arg for a in pos][len(pos) - len(helper.node.args.defaults):], helper.node.args.defaults))
    by_name.update({a.arg: d for a, d in zip(helper.node.args.kwonlyargs, helper.node.args.kw_defaults) if d is not None})
    ctx.check("R2", helper, "realpath" in by_name and A.try_literal(by_name["realpath"]) is False, "realpath-default", "the livefs intersection keeps recorded paths by default (realpath=False)")
    for q in ("MergeEngine.get_uninstall_livefs_intersect", "MergeEngine.get_install_livefs_intersect"):
        f = P.func(ENG, q)
        calls = [c for c in A.calls(f.node) if A.call_attr(c) == "_get_livefs_intersect_cset"]
        ctx.require(calls, f"{q}: intersect helper call not found")
        rp = [k for k in calls[0].keywords if k.arg == "realpath"] or ([calls[0].args[3]] if len(calls[0].args) > 3 else [])
        ctx.check("R2", f, not rp, f"no-realpath:{q.split('.')[-1]}", f"{q} keeps the recorded path spelling (old and new entries are compared by location)",
                  f"{q} resolves symlinked parents (realpath) on one side of `old_cset - install`: an entry both packages own under a symlinked directory no longer cancels out and the freshly merged file is removed", node=calls[0])
    ctx.floor("R2", 6)

    # ---- R3 protection trigger --------------------------------------------------------------
    prot = P.cls(TRG, "BaseSystemUnmergeProtection")
    unm = P.cls(TRG, "unmerge")
    base = P.cls(TRG, "base")

    def attr(K, name):
        owner, node = P.lookup_attr(K, name)
        return A.try_literal(node) if node is not None and not hasattr(node, "node") else None

    ctx.check("R3", prot, attr(prot, "_hooks") == attr(unm, "_hooks") == ("unmerge",), "same-hook", "protection and unmerge triggers run in the same 'unmerge' hook",
              f"BaseSystemUnmergeProtection hooks {attr(prot, '_hooks')} vs unmerge {attr(unm, '_hooks')}: in replace mode the uninstall cset is regenerated per hook, so stripping it in an earlier hook is lost")
    ctx.check("R3", prot, attr(prot, "required_csets") == attr(unm, "required_csets") == ("uninstall",), "same-cset", "both act on the 'uninstall' cset")
    pp, pu = attr(prot, "priority"), attr(unm, "priority")
    ctx.check("R3", prot, isinstance(pp, int) and isinstance(pu, int) and pp < pu, "runs-first", f"protection priority {pp} is lower than unmerge's {pu} (ascending execution)", f"priorities: protection {pp}, unmerge {pu}")
    eh = P.func(ENG, "MergeEngine.execute_hook")
    srt = [c for c in A.calls(eh.node) if dotted(c.func) == "sorted"]
    by_prio = ("operator.attrgetter('priority')", "attrgetter('priority')", "lambda $t: $t.priority")
    asc = [c for c in srt if not any(k.arg == "reverse" for k in c.keywords)
           and any(k.arg == "key" and any(M.pat(p).matches(k.value) for p in by_prio) for k in c.keywords)]
    # the ascending sort is what the trigger loop iterates
    ok = any(isinstance(n, ast.For) and any(n.iter is c for c in asc) for n in ast.walk(eh.node))
    ctx.check("R3", eh, ok, "ascending-execution", "execute_hook runs triggers in ascending priority order")
    seq = A.try_literal(prot.assigns.get("_preserve_sequence"))
    ctx.check("R3", prot, isinstance(seq, tuple) and BASE_DIRS <= set(seq), "base-dirs", "the preserved list contains the base-system directories", f"missing from _preserve_sequence: {sorted(BASE_DIRS - set(seq or ()))}")
    tr = prot.methods["trigger"]
    calls = [c for c in A.calls(tr.node) if A.call_attr(c) == "difference_update"]
    tp = tr.params()
    ctx.require(len(tp) >= 3, "BaseSystemUnmergeProtection.trigger: expected (self, engine, cset) parameters")
    strip = [f"{tp[2]}.difference_update(pjoin({tp[1]}.offset, $x) for $x in self._block)",
             f"{tp[2]}.difference_update([pjoin({tp[1]}.offset, $x) for $x in self._block])"]
    ok = len(calls) == 1 and any(M.pat(p).matches(calls[0]) for p in strip)
    ctx.check("R3", tr, ok, "strips-under-offset", "every preserved directory, joined under the engine offset, is removed from the uninstall cset")
    init = prot.methods["__init__"]
    ip = init.params()
    ctx.require(len(ip) >= 2, "BaseSystemUnmergeProtection.__init__: expected a preserve_sequence parameter")
    dflt_seq = M.has(init.node, f"if {ip[1]} is None:\n    {ip[1]} = self._preserve_sequence")
    blocks = [m for m in M.find(init.node, "self._block = $$e") if M.has(m["$e"], f"$x.lstrip('/')") and any(isinstance(n, ast.Name) and n.id == ip[1] for n in ast.walk(m["$e"]))]
    ctx.check("R3", init, dflt_seq and len(blocks) == 1, "default-sequence", "the default preserved list is used unless overridden")
    ut = unm.methods["trigger"]
    uc2 = [c for c in A.calls(ut.node) if dotted(c.func) == "unmerge_contents"]
    ctx.check("R3", ut, len(uc2) == 1 and A.unparse(uc2[0].args[0]) == ut.params()[2], "unmerge-uses-cset", "the unmerge trigger hands exactly the (stripped) uninstall cset to unmerge_contents")
    dp = P.func_opt(TRG, "default_plugins_triggers") or P.func_opt("pkgcore.merge.engine", "default_plugins_triggers")
    reg = [n for f in P.module(TRG).funcs.values() if "triggers" in f.name for n in ast.walk(f.node) if isinstance(n, ast.Name) and n.id == "BaseSystemUnmergeProtection"]
    ctx.check("R3", prot, bool(reg), "registered", "BaseSystemUnmergeProtection is among the default triggers")
    ctx.floor("R3", 9)

    # ---- R4 an engine works from its own package's tables: nothing process-wide is written ------------------------------
    G.no_shared_default_writes(ctx, "R4", ["src/pkgcore/merge/engine.py", "src/pkgcore/merge/triggers.py", "src/pkgcore/fs/ops.py"])
    G.pure(ctx, "R4", [("pkgcore.merge.engine", q, (), "the class-level cset/hook tables are templates every engine copies") for q in ("MergeEngine.install", "MergeEngine.uninstall", "MergeEngine.replace")])
    ctx.floor("R4", 4)

    # ---- R5 a failure of the removal (or of the protection) stops the operation ---------------------------------------
    # execute_hook swallows an unexpected exception of a trigger whose suppress_exceptions flag is true (a warning is
    # all that is left); the triggers that do the removal and that protect the base directories must resolve it to False.
    gate = [i for i in ast.walk(eh.node) if isinstance(i, ast.If) and any(isinstance(n, ast.Attribute) and n.attr == "suppress_exceptions" for n in ast.walk(i.test))]
    if ctx.check("R5", eh, bool(gate), "suppress-gate", "execute_hook re-raises a trigger's unexpected exception unless the trigger's suppress_exceptions flag is set"):
        removers = [K for K in P.module(TRG).classes.values() if "trigger" in K.methods
                    and any(dotted(c.func) in ("unmerge_contents", "merge_contents") for c in A.calls(K.methods["trigger"].node))]
        ctx.require(unm in removers, "the unmerge trigger no longer calls unmerge_contents")
        for K in removers + [prot]:
            v = attr(K, "suppress_exceptions")
            ctx.check("R5", K, v is False, f"failure-propagates:{K.name}", f"{K.name}.suppress_exceptions resolves to False through its bases",
                      f"{K.name}.suppress_exceptions resolves to {v!r}: an exception raised while {'protecting the base directories' if K is prot else 'changing the filesystem'} is "
                      f"reduced to a warning by execute_hook and the operation goes on to record the package as {'removed' if K is not prot else 'it stands'}")
    ctx.floor("R5", 4)

MUTANTS = [
    {"name": "unmerge-filtered-kinds", "file": "src/pkgcore/fs/ops.py", "old": "    for x in iterate(cset.iterdirs(invert=True)):\n        callback(x)\n        unlink_if_exists(x.location)", "new": "    for x in iterate(e for e in cset if e.is_reg or e.is_sym):\n        callback(x)\n        unlink_if_exists(x.location)", "rule": "R1"},
    {"name": "rmtree-dirs", "file": "src/pkgcore/fs/ops.py", "old": "            os.rmdir(x.location)\n        except OSError as e:\n            if e.errno not in (", "new": "            os.removedirs(x.location)\n        except OSError as e:\n            if e.errno not in (", "rule": "R1"},
    {"name": "protection-earlier-hook", "file": "src/pkgcore/merge/triggers.py", "old": "    priority = -100\n    _engine_types = UNINSTALLING_MODES\n    _hooks = (\"unmerge\",)", "new": "    priority = -100\n    _engine_types = UNINSTALLING_MODES\n    _hooks = (\"pre_unmerge\",)", "rule": "R3"},
    {"name": "old-cset-realpath", "file": "src/pkgcore/merge/engine.py", "old": "        return engine._get_livefs_intersect_cset(engine, csets, \"raw_old_cset\")", "new": "        return engine._get_livefs_intersect_cset(engine, csets, \"raw_old_cset\", realpath=True)", "rule": "R2"},
    {"name": "protection-after-unmerge", "file": "src/pkgcore/merge/triggers.py", "old": "    required_csets = (\"uninstall\",)\n    priority = -100", "new": "    required_csets = (\"uninstall\",)\n    priority = 100", "rule": "R3"},
    {"name": "remove-cset-no-difference", "file": "src/pkgcore/merge/engine.py", "old": "        return csets[\"old_cset\"].difference(csets[\"install\"])", "new": "        return csets[\"old_cset\"]", "rule": "R2"},
    {"name": "base-dir-dropped", "file": "src/pkgcore/merge/triggers.py", "old": "        \"/etc\",\n        \"/var\",", "new": "        \"/etc\",", "rule": "R3"},
    {"name": "dirs-forward-order", "file": "src/pkgcore/fs/ops.py", "old": "    l.sort(reverse=True)", "new": "    l.sort()", "rule": "R1"},
]
MUTANTS += [
    {"name": "unmerge-trigger-inherits-suppression", "file": "src/pkgcore/merge/triggers.py", "old": "    _hooks = (\"unmerge\",)\n\n    suppress_exceptions = False\n\n    def trigger(self, engine, unmerging_cset):", "new": "    _hooks = (\"unmerge\",)\n\n    def trigger(self, engine, unmerging_cset):", "rule": "R5"},
]
TWINS = [
    {"name": "flag-moved-to-a-shared-mixin", "file": "src/pkgcore/merge/triggers.py", "old": "class unmerge(base):\n    required_csets = (\"uninstall\",)\n    _engine_types = UNINSTALLING_MODES\n    _hooks = (\"unmerge\",)\n\n    suppress_exceptions = False\n", "new": "class _loud(base):\n    suppress_exceptions = False\n\n\nclass unmerge(_loud):\n    required_csets = (\"uninstall\",)\n    _engine_types = UNINSTALLING_MODES\n    _hooks = (\"unmerge\",)\n"},
]
