"""C47 — tarball sync replaces a repository atomically and recovers from interruption."""
import ast

from ..core import astutil as A
from ..core import cfg as CFG
from ..core import match as M
from ..core.model import dotted

META = {
    "technique": "effect/ownership rule (the unpack target is a hidden sibling staging dir; the only operations on the repository path are the two swap renames), dominator rules on the CFGs (the swap is dominated by the completed download and a successful unpack; the validator files are written only after the swap; the crash-recovery step precedes anything that can create the repository path), stale-staging reset rule, recovery-condition shape",
    "level": "Decides the structural clauses: a failed download or unpack raises before anything touches the repository path; the new tree is unpacked into `.<repo>.update` and moved in by rename, the old tree moved to `.<repo>.old`; both staging dirs are reset before use so leftovers of a killed run cannot fail the renames; the ETag/Last-Modified files are updated only after the new tree is in place; an interrupted swap is repaired (old tree renamed back) before the repository directory can be (re)created. Reports as a known finding the swap window itself: between the two renames the repository path does not exist (a directory cannot be replaced by rename() in one step); the next sync repairs it. Does NOT decide HTTP behaviour.",
    "note": "",
}
META["technique"] += "; " + 'generic pack G on the anchored files (optional-flag shift, closures outliving a loop iteration, single-pass iterables consumed twice, %-templates built from data, in-place writes to class-level / memoised objects, generators mutating what they yielded, memo keys that are projections)'
TAR = "pkgcore.sync.tar"
HTTP = "pkgcore.sync.http"


def run(ctx):
    P = ctx.program
    ctx.explanation = META["level"]
    pre = P.func(TAR, "tar_syncer._pre_download")
    post = P.func(TAR, "tar_syncer._post_download")
    sy = P.func(HTTP, "http_syncer._sync")
    # ---- R1 staging and swap ----------------------------------------------------------------------
    # locals of _pre_download are bound by role: $base = the repository path, $rd = its parent, $rn = its last component
    stg = M.one(pre.node, "$base = self.basedir.rstrip($_)\n$rd = os.path.dirname($base)\n$rn = os.path.basename($base)\nself.tempdir = os.path.join($rd, f'.{$rn}.update')\nself.tempdir_old = os.path.join($rd, f'.{$rn}.old')")
    ctx.check("R1", pre, stg is not None, "staging-hidden-siblings", "staging dirs are hidden siblings of the repository (same filesystem: renames are atomic)")
    g = CFG.cfg_of(post.node)
    dom = g.dominators()
    runs = [c for c in A.calls(post.node) if dotted(c.func) == "subprocess.run"]
    ctx.require(len(runs) == 1, "tar _post_download: subprocess.run not found")
    # the command is whatever list reaches subprocess.run (a local, located through that use, or an inline list)
    arg0 = runs[0].args[0] if runs[0].args else None
    cmd = [v for t, v, _ in A.assignments(post.node, arg0.id)] if isinstance(arg0, ast.Name) else [arg0]
    ctx.require(len(cmd) == 1 and isinstance(cmd[0], ast.List), "tar _post_download: tar command not found")
    elts = cmd[0].elts
    dash_c = [i for i, e in enumerate(elts) if A.is_const(e, "-C")]
    ctx.check("R1", post, len(dash_c) == 1 and dash_c[0] + 1 < len(elts) and M.pat("self.tempdir").matches(elts[dash_c[0] + 1]) is not None and not any(M.has(e, "self.basedir") for e in elts), "unpacks-into-staging", "tar unpacks into the staging dir, never into the repository path")
    ctx.check("R1", post, any(k.arg == "check" and A.is_const(k.value, True) for k in runs[0].keywords), "unpack-failure-raises", "a failing unpack raises (check=True)")
    renames = [c for c in A.calls(post.node) if dotted(c.func) == "os.rename"]
    ctx.check("R1", post, len(renames) == 2, f"swap-renames:{len(renames)}", "the swap is two renames")
    rn = g.node_of(runs[0])
    sup = [c for c in A.calls(post.node) if A.unparse(c.func) == "super()._post_download"]
    for c in renames:
        ctx.check("R1", post, rn in dom[g.node_of(c)] and (not sup or g.node_of(sup[0]) in dom[g.node_of(c)]), f"swap-after-unpack:{A.unparse(c)[:40]}", f"`{A.unparse(c)[:50]}` happens only after the download was closed and the unpack succeeded",
                  f"`{A.unparse(c)}` can run without a successful unpack before it: a failed download/unpack touches the previous tree", node=c)
    touch = []
    for c in A.calls(post.node):
        d = dotted(c.func) or ""
        if d.startswith(("os.", "shutil.")) and d not in ("os.path.exists",) and any(A.unparse(a) == "self.basedir" for a in c.args):
            touch.append(c)
    ctx.check("R1", post, set(map(id, touch)) == set(map(id, renames)), f"only-renames-touch-repo:{len(touch)}", "nothing but the swap renames operates on the repository path")
    if len(renames) == 2:
        a, b = sorted(renames, key=lambda c: c.lineno)
        ok = [A.unparse(x) for x in a.args] == ["self.basedir", "self.tempdir_old"] and [A.unparse(x) for x in b.args] == ["self.tempdir", "self.basedir"]
        ctx.check("R1", post, ok, "swap-shape", "old tree -> .old, then new tree -> repository path")
        if ok:
            ctx.fail("R1", post, "swap-window:two-renames", "between `os.rename(self.basedir, self.tempdir_old)` and `os.rename(self.tempdir, self.basedir)` the repository path does not exist: an interruption there leaves neither tree at the path until the next sync renames the old one back", node=a)
    ctx.floor("R1", 7)

    # ---- R2 stale staging reset -------------------------------------------------------------------------
    mk = [c for c in A.calls(post.node) if dotted(c.func) == "os.makedirs"]
    for d in ("self.tempdir", "self.tempdir_old"):
        rm = [c for c in A.calls(post.node) if dotted(c.func) == "shutil.rmtree" and A.unparse(c.args[0]) == d and any(k.arg == "ignore_errors" and A.is_const(k.value, True) for k in c.keywords)]
        first_use = min([c.lineno for c in mk + renames if any(A.unparse(x) == d for x in c.args)], default=10**9)
        ctx.check("R2", post, len(rm) == 1 and rm[0].lineno < first_use, f"staging-reset:{d.split('.')[-1]}", f"`{d}` is wiped before it is used (leftovers of a killed run cannot make the rename fail)",
                  f"`{d}` is not reset before the swap: a non-empty leftover from a killed run makes the rename fail with ENOTEMPTY, and every later sync raises 'failed to update repo'", node=post.node)
    ctx.check("R2", post, rn not in () and all(c.lineno < runs[0].lineno for c in mk), "staging-before-unpack", "staging dirs exist before the unpack")
    ctx.floor("R2", 3)

    # ---- R3 recovery precedes (re)creation ---------------------------------------------------------------------
    gs = CFG.cfg_of(sy.node)
    doms = gs.dominators()
    prec = [c for c in A.calls(sy.node) if A.unparse(c.func) == "self._pre_download"]
    ctx.require(len(prec) == 1, "http _sync: _pre_download call not found")
    creators = [c for c in A.calls(sy.node) if dotted(c.func) in ("os.makedirs", "os.mkdir") and any("basedir" in A.unparse(a) for a in c.args)]
    ctx.check("R3", sy, len(creators) >= 1, f"repo-dir-creation-sites:{len(creators)}", f"{len(creators)} site(s) create the repository directory")
    for c in creators:
        ok = gs.node_of(prec[0]) in doms[gs.node_of(c)] and gs.node_of(prec[0]) is not gs.node_of(c)
        ctx.check("R3", sy, ok, f"recovery-before-creation@{c.lineno - sy.node.lineno}", "the repository directory is created only after _pre_download (the crash-recovery step) ran",
                  "http_syncer._sync creates the repository directory BEFORE _pre_download: tar_syncer's recovery keys on the repository path being absent, so after an interrupted swap the old tree in `.old` is never renamed back and is deleted by the next staging reset", node=c)
    ifs = [n for n in pre.node.body if isinstance(n, ast.If)]
    rec = [n for n in ifs if any(dotted(c.func) == "os.rename" for c in A.calls(n))]
    base_env = {"base": stg["base"]} if stg is not None else {}
    ok = len(rec) == 1 and M.pat("if not os.path.exists($base) and os.path.isdir(self.tempdir_old) and os.listdir(self.tempdir_old):\n    os.rename(self.tempdir_old, $base)").matches(rec[0], base_env) is not None
    ctx.check("R3", pre, ok, "recovery-condition", "recovery: repository path absent and a non-empty `.old` -> rename it back",
              "tar_syncer._pre_download no longer restores the old tree after an interrupted swap", node=pre.node)
    ctx.floor("R3", 3)

    # ---- R4 validators after install ---------------------------------------------------------------------------------
    pd = [c for c in A.calls(sy.node) if A.unparse(c.func) == "self._post_download"]
    ctx.require(len(pd) == 1, "http _sync: _post_download call not found")
    opens = [c for c in A.calls(sy.node) if dotted(c.func) == "open" and len(c.args) > 1 and "w" in str(A.try_literal(c.args[1], default=""))]
    # the two validator paths are locals of _sync: bound by what they are (files in the repository dir), named by role in the tags
    role = {}
    for r, fname in (("etag_path", ".etag"), ("modified_path", ".modified")):
        m = [x for x in M.find(sy.node, "$p = pjoin(self.basedir, $$f)") if A.is_const(x["$f"], fname)]
        if len(m) == 1:
            role[m[0]["p"]] = r
    who = lambda c: role.get(A.unparse(c.args[0]), A.unparse(c.args[0]))
    ctx.check("R4", sy, len(opens) == 2 and {who(c) for c in opens} == {"etag_path", "modified_path"} and len(role) == 2, f"validator-writes:{len(opens)}", "the ETag and Last-Modified files are the only files _sync writes besides the download")
    for c in opens:
        ok = gs.node_of(pd[0]) in doms[gs.node_of(c)]
        ctx.check("R4", sy, ok, f"validator-after-install:{who(c)}", f"`{who(c)}` is written only after _post_download (close + unpack + swap) succeeded",
                  f"`{who(c)}` is written before _post_download: a download that unpacks badly leaves validators describing it in the PREVIOUS tree, and the next sync of the intact tarball answers 'no update'", node=c)
    ctx.floor("R4", 3)

    # ---- R5 download handling --------------------------------------------------------------------------------------------
    aw = [c for c in A.calls(sy.node) if dotted(c.func) == "AtomicWriteFile"]
    dest = M.one(sy.node, "$dest = self._pre_download()")
    ctx.check("R5", sy, len(aw) == 1 and dest is not None and M.pat("AtomicWriteFile($dest, ...)").matches(aw[0], dest.env) is not None and any(k.arg == "binary" for k in aw[0].keywords), "download-atomic", "the download goes through an AtomicWriteFile on the destination")
    closes = [(f.qual, c) for f in (sy, P.func(HTTP, "http_syncer._post_download")) for c in A.calls(f.node) if A.unparse(c.func) == "self._download.close"]
    ctx.check("R5", sy, [q for q, _ in closes] == ["http_syncer._post_download"], f"published-only-when-complete:{[q for q, _ in closes]}", "the download is published (close) only by _post_download, i.e. after the read loop ended normally")
    rets = A.returns(pre.node)
    ctx.check("R5", pre, M.has(pre.node, "self.tarball = tempfile.NamedTemporaryFile()") and bool(rets) and all(M.pat("return self.tarball.name").matches(r) is not None for r in rets), "tarball-outside-repo", "the tarball is downloaded to a temporary file, not into the repository")
    ctx.floor("R5", 3)


FT = "src/pkgcore/sync/tar.py"
FH = "src/pkgcore/sync/http.py"
MUTANTS = [
    {"name": "unpack-in-place", "file": FT, "old": "            \"-C\",\n            self.tempdir,\n", "new": "            \"-C\",\n            self.basedir,\n", "rule": "R1"},
    {"name": "unpack-failure-ignored", "file": FT, "old": "subprocess.run(cmd, stderr=subprocess.PIPE, check=True, encoding=\"utf8\")", "new": "subprocess.run(cmd, stderr=subprocess.PIPE, check=False, encoding=\"utf8\")", "rule": "R1"},
    {"name": "old-moved-before-unpack", "file": FT, "old": "        exts = {\"gz\": \"gzip\", \"bz2\": \"bzip2\", \"xz\": \"xz\"}", "new": "        if os.path.exists(self.basedir):\n            shutil.rmtree(self.basedir)\n        exts = {\"gz\": \"gzip\", \"bz2\": \"bzip2\", \"xz\": \"xz\"}", "rule": "R1"},
    {"name": "revert-old-not-reset", "file": FT, "old": "        shutil.rmtree(self.tempdir_old, ignore_errors=True)\n        try:", "new": "        try:", "rule": "R2"},
    {"name": "makedirs-before-recovery", "file": FH, "old": "        dest = self._pre_download()\n", "new": "        os.makedirs(self.basedir, exist_ok=True)\n        dest = self._pre_download()\n", "rule": "R3"},
    {"name": "revert-no-recovery", "file": FT, "old": "            os.rename(self.tempdir_old, basedir)\n", "new": "            pass\n", "rule": "R3"},
    {"name": "validators-before-install", "file": FH, "old": "        self._post_download(dest)\n\n        # TODO: store this in pkgcore cache dir instead?\n        # update cached ETag/Last-Modified values\n        if etag:\n            with open(etag_path, \"w\") as f:\n                f.write(etag)\n        if modified:\n            with open(modified_path, \"w\") as f:\n                f.write(modified)\n", "new": "        if etag:\n            with open(etag_path, \"w\") as f:\n                f.write(etag)\n        if modified:\n            with open(modified_path, \"w\") as f:\n                f.write(modified)\n        self._post_download(dest)\n", "rule": "R4"},
]
TWINS = []
