"""C10 — REQUIRED_USE solving is sound, complete and preference-first (structural clauses)."""
import ast
import itertools

from ..core import generic as G
from ..core import astutil as A
from ..core import match as M
from ..core.mirror import canon
from ..core.model import dotted

META = {
    "technique": "symbolic set algebra over the 16 membership regions (IUSE, forced-on, forced-off, preferred) of every problem.add_variable(...) domain expression; dispatch table node-class -> constraint constructor with negate/vals provenance; closure truth-expression table; input-purity (no mutation of set parameters)",
    "level": "Decides: (R1) the variable domains partition the flags: inside IUSE forced-on gets (True,), forced-off (False,), preferred a two-valued domain whose LAST element is True, all other flags a two-valued domain whose last element is False (the solver pops the last value first), and every flag outside IUSE gets (False,); (R2) every REQUIRED_USE node class has its own constraint constructor, fed with that node's negate flag (for conditionals: the condition's own negate and flags), and unknown nodes raise; (R3) the six closures compute any/all/exactly-one/at-most-one/implication xor negate; (R4) the solver entry point does not mutate the sets it is given. Does NOT decide the backtracking solver itself (snakeoil, trusted base).",
    "note": "library fact: snakeoil.constraints.Problem tries a variable's LAST listed value first; contradictory inputs (a flag both forced on and off) are outside the property",
}
META["technique"] += "; " + 'region table also for a flag->domain map filled by successive updates (last write wins); generator-function rule'
META["level"] += " Added after the second round of independent changes: " + '(R1) also when the domains are collected in a map with override semantics; (R4) find_constraint_satisfaction is an ordinary function (arguments read at call time) and writes to none of its arguments.'
META["technique"] += "; " + 'generic pack G on the anchored files (optional-flag shift, closures outliving a loop iteration, single-pass iterables consumed twice, %-templates built from data, in-place writes to class-level / memoised objects, generators mutating what they yielded, memo keys that are projections)'

REGION_KEYS = ("iuse", "force_true", "force_false", "prefer_true")


class SetEval:
    """Evaluate a set expression as a membership predicate over one region (dict name -> bool)."""

    def __init__(self, fn, extra=None):
        self.fn = fn
        self.defs = {}
        for t, v, st in A.assignments(fn.node):
            if isinstance(t, ast.Name):
                self.defs.setdefault(t.id, v)
        self.extra = extra or {}

    def member(self, e, region, depth=0):
        if depth > 12:
            raise ValueError("depth")
        if isinstance(e, ast.Starred):
            return self.member(e.value, region, depth + 1)
        if isinstance(e, ast.Name):
            if e.id in region:
                return region[e.id]
            if e.id in self.extra:
                return self.extra[e.id](region)
            if e.id in self.defs:
                return self.member(self.defs[e.id], region, depth + 1)
            raise ValueError(f"unknown set {e.id}")
        if isinstance(e, ast.NamedExpr):
            return self.member(e.value, region, depth + 1)
        if isinstance(e, ast.Call) and isinstance(e.func, ast.Attribute):
            base = self.member(e.func.value, region, depth + 1)
            args = [self.member(a, region, depth + 1) for a in e.args]
            m = e.func.attr
            if m == "difference":
                return base and not any(args)
            if m == "intersection":
                return base and all(args)
            if m == "union":
                return base or any(args)
            if m in ("copy",):
                return base
            raise ValueError(f"set method {m}")
        if isinstance(e, ast.Call) and dotted(e.func) in ("set", "frozenset", "sorted", "list", "tuple") and len(e.args) == 1:
            return self.member(e.args[0], region, depth + 1)
        if isinstance(e, ast.BinOp):
            l, r = self.member(e.left, region, depth + 1), self.member(e.right, region, depth + 1)
            if isinstance(e.op, ast.Sub):
                return l and not r
            if isinstance(e.op, ast.BitAnd):
                return l and r
            if isinstance(e.op, ast.BitOr):
                return l or r
        raise ValueError(f"set expression {A.unparse(e)[:50]}")


COMPS = (ast.GeneratorExp, ast.ListComp, ast.SetComp, ast.DictComp)


def alpha(node):
    """copy of an expression with comprehension-bound variables replaced by positional placeholders (_b0, _b1, ..):
    the spelling of a bound variable is not behaviour"""
    n_ = itertools.count()

    def go(n, env):
        if isinstance(n, ast.Name):
            return ast.Name(id=env.get(n.id, n.id), ctx=ast.Load())
        if isinstance(n, COMPS):
            env, gens = dict(env), []
            for g in n.generators:
                it = go(g.iter, env)
                for t in ast.walk(g.target):
                    if isinstance(t, ast.Name):
                        env[t.id] = f"_b{next(n_)}"
                gens.append(ast.comprehension(target=go(g.target, env), iter=it, ifs=[go(i, env) for i in g.ifs], is_async=g.is_async))
            if isinstance(n, ast.DictComp):
                return ast.DictComp(key=go(n.key, env), value=go(n.value, env), generators=gens)
            return type(n)(elt=go(n.elt, env), generators=gens)
        if isinstance(n, ast.AST):
            return type(n)(**{f: go(v, env) for f, v in ast.iter_fields(n)})
        if isinstance(n, list):
            return [go(x, env) for x in n]
        return n

    return go(node, {})


def norm_cmp(node):
    """canonical text; constant-on-the-left orderings are flipped"""
    if isinstance(node, ast.Compare) and len(node.ops) == 1 and isinstance(node.left, ast.Constant):
        flip = {ast.GtE: ast.LtE, ast.LtE: ast.GtE, ast.Gt: ast.Lt, ast.Lt: ast.Gt}
        t = type(node.ops[0])
        if t in flip:
            node = ast.Compare(left=node.comparators[0], ops=[flip[t]()], comparators=[node.left])
    if isinstance(node, ast.Compare):
        node = ast.Compare(left=norm_cmp(node.left), ops=node.ops, comparators=[norm_cmp(c) for c in node.comparators])
    if isinstance(node, ast.BoolOp):
        node = ast.BoolOp(op=node.op, values=[norm_cmp(v) for v in node.values])
    return node


CLOSURES = {
    "__use_flags_state_any": "(vals.isdisjoint(on) == negate)",
    "__condition": "((vals.issubset(on) == negate) or all(c(on) for c in children))",
    "__or_constraint": "(any(c(on) for c in children) != negate)",
    "__and_constraint": "(all(c(on) for c in children) != negate)",
    "__just_one_constraint": "((1 == sum(c(on) for c in children)) != negate)",
    "__at_most_one_constraint": "((sum(c(on) for c in children) LtE 1) != negate)",
}
DISPATCH = {
    "OrRestriction": "__or_constraint",
    "AndRestriction": "__and_constraint",
    "JustOneRestriction": "__just_one_constraint",
    "AtMostOneOfRestriction": "__at_most_one_constraint",
    "ContainmentMatch": "__use_flags_state_any",
    "Conditional": "__condition",
}


def run(ctx):
    P = ctx.program
    ctx.explanation = META["level"]
    mod = P.module("pkgcore.restrictions.required_use")
    f = P.func("pkgcore.restrictions.required_use", "find_constraint_satisfaction")
    ps = f.params()
    for need in REGION_KEYS:
        ctx.require(need in ps, f"find_constraint_satisfaction: parameter {need} missing")
    # ---- R1 ----------------------------------------------------------------
    adds = [c for c in A.calls(f.node) if A.call_attr(c) == "add_variable"]
    # second idiom: a flag -> domain map filled by dict.fromkeys(<set>, <domain>) and successive .update(...) calls
    # (later entries override earlier ones), declared in one loop over its items
    table = []  # (set expression, domain), in program order
    tname = None
    for st in f.node.body:
        mk = M.pat("$d = dict.fromkeys($$s, $$dom)").matches(st)
        if mk is not None and tname is None:
            tname = mk["d"]
            table.append((mk["$s"], A.try_literal(mk["$dom"]), st))
            continue
        if tname is not None:
            up = M.pat(f"{tname}.update(dict.fromkeys($$s, $$dom))").matches(st.value) if isinstance(st, ast.Expr) else None
            if up is not None:
                table.append((up["$s"], A.try_literal(up["$dom"]), st))
    via_table = None
    if tname is not None:
        for c in adds:
            loop = A.enclosing(c, ast.For)
            if loop is not None and M.pat(f"{tname}.items()").matches(loop.iter) is not None and isinstance(loop.target, ast.Tuple) and len(loop.target.elts) == 2 \
                    and len(c.args) == 2 and [A.unparse(a) for a in c.args] == [A.unparse(loop.target.elts[1]), A.unparse(loop.target.elts[0])]:
                via_table = c
    if via_table is not None:
        ctx.require(all(isinstance(d, tuple) for _, d, _ in table), "find_constraint_satisfaction: a domain in the flag->domain map is not a literal tuple")
        adds = [c for c in adds if c is not via_table]
    ctx.require(len(adds) >= 5 or (via_table is not None and adds), "find_constraint_satisfaction: fewer than 5 add_variable calls")
    # missing_vars := variables - problem.variables.keys()  => flags not yet declared; after the four declarations
    # that is "not in IUSE" (every IUSE flag was declared) — encoded as an extra set
    se = SetEval(f)
    # the solver object = what add_variable is called on (a local; its spelling is free)
    solvers = {A.unparse(c.func.value) for c in adds if isinstance(c.func, ast.Attribute)}
    ctx.require(len(solvers) == 1, f"find_constraint_satisfaction: add_variable is called on {sorted(solvers)}, expected one solver object")
    solver = next(iter(solvers))

    def reads_solver_variables(e):
        return any(isinstance(n, ast.Attribute) and n.attr == "variables" and A.unparse(n.value) == solver for n in ast.walk(e))

    def late_declaration(c, expr):
        """the declared flags depend on the per-constraint loop variables or on what the solver has declared so far
        (followed through local definitions): this is the catch-up declaration, not one of the up-front ones"""
        loop = A.enclosing(c, ast.For)
        per_item = set(A.assigned_names(loop.target)) if loop is not None else set()
        seen, todo = set(), [expr]
        while todo:
            e = todo.pop()
            if reads_solver_variables(e):
                return True
            for n in A.names_in(e):
                if n in per_item:
                    return True
                if n not in seen and n in se.defs and n not in ps:
                    seen.add(n)
                    todo.append(se.defs[n])
        return False

    declared = []  # (domain, predicate(region))
    missing_calls = []
    for c in adds:
        dom = A.try_literal(c.args[0]) if c.args else None
        ctx.require(isinstance(dom, tuple) and len(c.args) == 2 and isinstance(c.args[1], ast.Starred), f"add_variable call not understood: {A.unparse(c)[:70]}")
        expr = c.args[1].value
        if late_declaration(c, expr):
            missing_calls.append((c, dom))
            continue
        declared.append((c, dom, expr))
    ctx.require((len(declared) >= 4 or via_table is not None) and missing_calls, "find_constraint_satisfaction: declaration structure changed")
    regions = [dict(zip(REGION_KEYS, bits)) for bits in itertools.product([False, True], repeat=4)]
    for region in regions:
        if region["force_true"] and region["force_false"]:
            continue  # contradictory input
        label = ",".join(k for k in REGION_KEYS if region[k]) or "none"
        hits = []
        for c, dom, expr in declared:
            try:
                if se.member(expr, region):
                    hits.append((c, dom))
            except ValueError as e:
                ctx.require(False, f"find_constraint_satisfaction: cannot evaluate `{A.unparse(expr)[:60]}`: {e}")
        if via_table is not None:
            last = None
            for sexpr, dom, st in table:
                try:
                    if se.member(sexpr, region):
                        last = (st, dom)  # a later entry of the map replaces an earlier one
                except ValueError as e:
                    ctx.require(False, f"find_constraint_satisfaction: cannot evaluate `{A.unparse(sexpr)[:60]}`: {e}")
            if last is not None:
                hits.append(last)
        if not region["iuse"]:
            ctx.check("R1", f, not hits, f"outside-iuse:{label}",
                      f"flags outside IUSE ({label}) are not declared by the four up-front declarations (they later get (False,))",
                      f"a flag outside IUSE in region [{label}] is declared with domain {[d for _, d in hits]}: it can be switched on", node=hits[0][0] if hits else None)
            continue
        if region["force_true"]:
            want, desc = (lambda d: d == (True,)), "(True,)"
        elif region["force_false"]:
            want, desc = (lambda d: d == (False,)), "(False,)"
        elif region["prefer_true"]:
            want, desc = (lambda d: set(d) == {True, False} and d[-1] is True), "two values, True last (tried first)"
        else:
            want, desc = (lambda d: set(d) == {True, False} and d[-1] is False), "two values, False last (tried first)"
        ok = len(hits) == 1 and want(hits[0][1])
        ctx.check("R1", f, ok, f"domain:{label}", f"IUSE flags in region [{label}] are declared exactly once with domain {desc}",
                  f"IUSE flags in region [{label}] get domains {[d for _, d in hits]}; expected exactly one declaration with {desc}", node=hits[0][0] if hits else f.node)
    for c, dom in missing_calls:
        ctx.check("R1", f, dom == (False,), "missing-vars-off", "flags named by REQUIRED_USE but not declared (outside IUSE) are pinned to False", node=c)
        # what "missing" is computed against must be the declared variables, not a caller-supplied set
        par = A.enclosing(c, ast.If)
        src = A.unparse(par.test) if par is not None else ""
        ctx.check("R1", f, par is not None and reads_solver_variables(par.test), "missing-vars-source", "undeclared flags are computed against the solver's declared variables",
                  f"undeclared flags are computed from `{src}` instead of the solver's declared variables", node=c)
    ctx.floor("R1", 12)

    # ---- R4 purity -------------------------------------------------------------------
    MUT = {"add", "update", "discard", "remove", "clear", "difference_update", "intersection_update", "symmetric_difference_update", "pop"}
    for n in A.body_walk(f.node):
        if isinstance(n, ast.AugAssign) and isinstance(n.target, ast.Name) and n.target.id in ps:
            ctx.check("R4", f, False, f"mutates-param:{n.target.id}", "", f"find_constraint_satisfaction mutates its argument `{n.target.id}` in place (`{A.unparse(n)}`): a caller re-using the set gets different answers on the next call", node=n)
        if isinstance(n, ast.Call) and isinstance(n.func, ast.Attribute) and n.func.attr in MUT and isinstance(n.func.value, ast.Name) and n.func.value.id in ps:
            ctx.check("R4", f, False, f"mutates-param:{n.func.value.id}", "", f"find_constraint_satisfaction mutates its argument `{n.func.value.id}` (`{A.unparse(n)[:50]}`)", node=n)
    ctx.ob("R4", f, f"no in-place mutation of parameters {ps}")
    lazy = [n for n in A.body_walk(f.node) if isinstance(n, (ast.Yield, ast.YieldFrom))]
    ctx.check("R4", f, not lazy, "reads-arguments-at-call-time",
              "find_constraint_satisfaction is an ordinary function: IUSE and the forced / preferred sets are read when it is called",
              "find_constraint_satisfaction is a generator function: nothing in its body (reading iuse, force_true, force_false, prefer_true, building the problem) runs "
              "before the first solution is requested, so the assignments follow whatever the caller's set objects contain by then, not the call-time arguments",
              node=lazy[0] if lazy else None)
    G.pure(ctx, "R4", [("pkgcore.restrictions.required_use", "find_constraint_satisfaction", (), "the caller's flag sets are inputs, not scratch space")])

    # ---- R2 dispatch ---------------------------------------------------------------------
    single = P.func("pkgcore.restrictions.required_use", "__to_single_constraint")
    multi = P.func("pkgcore.restrictions.required_use", "__to_multiple_constraint")
    arms = {}
    node = next((s for s in single.node.body if isinstance(s, ast.If)), None)  # first branching statement, wherever it sits
    ctx.require(node is not None and M.has(node.test, "isinstance($_, $_)"), "__to_single_constraint: isinstance chain not found")
    before = single.node.body[: single.node.body.index(node)]
    ctx.require(all(isinstance(s, (ast.Expr, ast.Assign, ast.AnnAssign, ast.Assert, ast.Pass)) for s in before), "__to_single_constraint: control flow ahead of the isinstance chain not understood")
    cur = node
    has_else_raise = False
    while isinstance(cur, ast.If):
        t = cur.test
        if isinstance(t, ast.Call) and dotted(t.func) == "isinstance" and len(t.args) == 2:
            arms[(dotted(t.args[1]) or "").split(".")[-1]] = cur
        if cur.orelse and not (len(cur.orelse) == 1 and isinstance(cur.orelse[0], ast.If)):
            has_else_raise = any(isinstance(x, ast.Raise) for x in cur.orelse)
            break
        cur = cur.orelse[0] if cur.orelse else None
    for cls_name, ctor in DISPATCH.items():
        arm = arms.get(cls_name)
        if not ctx.check("R2", single, arm is not None, f"arm:{cls_name}", f"{cls_name} nodes have a dispatch arm", f"__to_single_constraint has no arm for {cls_name} nodes"):
            continue
        calls = [c for s in arm.body for c in A.calls(s) if dotted(c.func) == ctor]
        if not ctx.check("R2", single, len(calls) == 1, f"ctor:{cls_name}", f"{cls_name} is compiled with {ctor}", f"the {cls_name} arm does not call {ctor}", node=arm):
            continue
        c = calls[0]
        subject = A.unparse(arm.test.args[0])
        neg = A.unparse(c.args[0]) if c.args else ""
        if cls_name == "Conditional":
            # the condition object is <subject>.restriction (possibly bound to a local)
            aliases = {subject + ".restriction"}
            for t_, v_, _ in A.assignments(single.node):
                if isinstance(t_, ast.Name) and A.unparse(v_) == subject + ".restriction" and any(A.contains_node(s, t_) for s in arm.body):
                    aliases.add(t_.id)
            vals_txt = A.unparse(c.args[1]) if len(c.args) > 1 else ""
            ok = any(neg == a + ".negate" for a in aliases) and any(a + ".vals" in vals_txt for a in aliases)
            ctx.check("R2", single, ok, "negate:Conditional", "a conditional is compiled with its condition's own negate flag and flags",
                      f"the Conditional arm passes negate=`{neg}`, flags=`{vals_txt}`; they must come from the condition ({sorted(aliases)}): `!flag? ( .. )` is read as `flag? ( .. )`", node=c)
        else:
            ctx.check("R2", single, neg == subject + ".negate", f"negate:{cls_name}", f"{cls_name} is compiled with its own negate flag", f"the {cls_name} arm passes negate=`{neg}`", node=c)
            if cls_name != "ContainmentMatch":
                rec = [x for s in arm.body for x in A.calls(s) if dotted(x.func) == "__to_single_constraint"]
                comp = [g for s in arm.body for g in ast.walk(s) if isinstance(g, (ast.GeneratorExp, ast.ListComp))]
                ok = bool(rec) and bool(comp) and A.unparse(comp[0].generators[0].iter) == subject + ".restrictions"
                ctx.check("R2", single, ok, f"children:{cls_name}", f"{cls_name}: every child restriction is compiled", node=arm)
    ctx.check("R2", single, has_else_raise, "unknown-raises", "an unknown node class raises instead of being skipped")
    # multi: conditional arm uses the condition's negate as well
    mc = [c for c in A.calls(multi.node) if dotted(c.func) == "__condition"]
    ctx.require(mc, "__to_multiple_constraint: __condition call not found")
    msubject = multi.params()[0] if multi.params() else ""
    for c in mc:
        neg, vals = (A.unparse(c.args[0]) if c.args else ""), (A.unparse(c.args[1]) if len(c.args) > 1 else "")
        ok = neg.endswith(".negate") and neg[: -len(".negate")] + ".vals" in vals and neg != msubject + ".negate"
        ctx.check("R2", multi, ok, "negate:Conditional-top", "a top-level conditional is compiled with its condition's own negate flag and flags", f"top-level conditional passes negate=`{neg}` flags=`{vals}`", node=c)
    ctx.floor("R2", 14)

    # ---- R3 closures -------------------------------------------------------------------------
    for name, want in CLOSURES.items():
        fn = P.func("pkgcore.restrictions.required_use", name)
        inner = [n for n in fn.node.body if isinstance(n, ast.FunctionDef)]
        ctx.require(len(inner) == 1, f"{name}: inner check closure not found")
        rets = A.returns(P.func("pkgcore.restrictions.required_use", f"{name}.<locals>.{inner[0].name}").node)
        ctx.require(len(rets) == 1, f"{name}: closure has {len(rets)} returns")
        # comprehension-bound variables are compared by position, not by spelling
        got = canon(norm_cmp(alpha(rets[0].value)))
        want_c = canon(norm_cmp(alpha(ast.parse(want.replace(" LtE ", " <= "), mode="eval").body)))
        ctx.check("R3", fn, got == want_c, f"closure:{name}", f"{name} computes `{want.replace(' LtE ', ' <= ')}`", f"{name} computes `{A.unparse(rets[0].value)}`, expected `{want.replace(' LtE ', ' <= ')}`", node=rets[0])
        outer_ret = [r for r in A.returns(fn.node) if isinstance(r.value, ast.Name) and r.value.id == inner[0].name]
        ctx.check("R3", fn, bool(outer_ret), f"closure-returned:{name}", f"{name} returns its closure")
    w = P.func("pkgcore.restrictions.required_use", "__wrapper")
    inner = P.func("pkgcore.restrictions.required_use", "__wrapper.<locals>.check")
    wrets = A.returns(inner.node)
    ctx.require(len(wrets) == 1, f"__wrapper: closure has {len(wrets)} returns")
    txt = A.unparse(wrets[0].value)
    ok = M.pat("constraint_func(frozenset($k for $k, $v in kwargs.items() if $v))").matches(wrets[0].value) is not None
    ctx.check("R3", w, ok, "wrapper-on-set", "the solver assignment is converted to the set of flags that are on", f"__wrapper passes `{txt}`")
    ctx.floor("R3", 13)


MUTANTS = [
    {"name": "force-true-outside-iuse", "file": "src/pkgcore/restrictions/required_use.py", "old": "    problem.add_variable((True,), *iuse.intersection(force_true))", "new": "    problem.add_variable((True,), *force_true)", "rule": "R1"},
    {"name": "prefer-true-order", "file": "src/pkgcore/restrictions/required_use.py", "old": "        (False, True),\n", "new": "        (True, False),\n", "rule": "R1"},
    {"name": "conditional-negate-of-node", "file": "src/pkgcore/restrictions/required_use.py", "old": "        return __condition(x.negate, frozenset(x.vals), *children), frozenset(", "new": "        return __condition(restrict.negate, frozenset(x.vals), *children), frozenset(", "rule": "R2"},
    {"name": "atmostone-strict", "file": "src/pkgcore/restrictions/required_use.py", "old": "        return (1 >= sum(c(on) for c in children)) != negate", "new": "        return (1 > sum(c(on) for c in children)) != negate", "rule": "R3"},
    {"name": "iuse-mutated", "file": "src/pkgcore/restrictions/required_use.py", "old": "            problem.add_variable((False,), *missing_vars)\n", "new": "            problem.add_variable((False,), *missing_vars)\n            iuse |= missing_vars\n", "rule": "R4"},
    {"name": "prefer-false-forgets-forced-off", "file": "src/pkgcore/restrictions/required_use.py", "old": "    prefer_false = iuse.difference(force_true, force_false, prefer_true)", "new": "    prefer_false = iuse.difference(force_true, prefer_true)", "rule": "R1"},
    {"name": "or-uses-all", "file": "src/pkgcore/restrictions/required_use.py", "old": "        return any(c(on) for c in children) != negate", "new": "        return all(c(on) for c in children) != negate", "rule": "R3"},
]
TWINS = [
    {"name": "atmostone-flipped-compare", "file": "src/pkgcore/restrictions/required_use.py", "old": "        return (1 >= sum(c(on) for c in children)) != negate", "new": "        return (sum(c(on) for c in children) <= 1) != negate"},
    {"name": "set-operators", "file": "src/pkgcore/restrictions/required_use.py", "old": "    problem.add_variable((True,), *iuse.intersection(force_true))", "new": "    problem.add_variable((True,), *(iuse & set(force_true)))"},
]
