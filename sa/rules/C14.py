"""C14 — USE-configured package views always reflect the current USE set (structural clauses)."""
import ast

from ..core import astutil as A
from ..core import match as M
from ..core.cfg import cfg_of
from ..core.model import dotted

META = {
    "technique": "effect/typestate rule on make_wrapper.<locals>.PackageWrapper: every method that mutates the configurable USE set bumps the cache generation on every path to a normal exit after the mutation; generation monotonicity rule (never assigned anything but old+positive constant outside __init__); refusal rule (every Unchangable handler and every refused return rolls back to the entry point taken before the first mutation); cache-read rule of _getattr_wrapped; evaluation-input rule of the ConfiguredTree attribute wrappers",
    "level": "Decides: (R1) request_enable, request_disable, rollback, commit and lock invalidate cached USE-dependent attributes after every mutation of the USE set; (R2) the cache generation only ever grows, so a generation under which something was cached is never reused; (R3) a refused request (Unchangable raised half-way, or a dependency that cannot be forced) rolls the USE set back to the point taken before the first change; (R4) an attribute is recomputed exactly when its cached generation differs from the current one, from the raw attribute and the live USE set; (R5) the ConfiguredTree wrappers evaluate dependency-style attributes under the full enabled USE set (not a subset of it). Does NOT decide attribute equality for concrete request histories.",
    "note": "snakeoil LimitedChangeSet (add/remove/rollback/commit/changes_count) is trusted base",
}
META["technique"] += "; " + 'generic pack G on the anchored files (optional-flag shift, closures outliving a loop iteration, single-pass iterables consumed twice, %-templates built from data, in-place writes to class-level / memoised objects, generators mutating what they yielded, memo keys that are projections)'
MOD = "pkgcore.package.conditionals"
PW = "make_wrapper.<locals>.PackageWrapper"
CONF = "self._configurable"


def mutation_nodes(fn):
    out = []
    for n in A.body_walk(fn.node):
        txt = A.unparse(n) if isinstance(n, (ast.Call, ast.Attribute)) else ""
        if isinstance(n, ast.Call) and A.unparse(n.func) in (f"{CONF}.add", f"{CONF}.remove", f"{CONF}.rollback", f"{CONF}.commit", f"{CONF}.update", f"{CONF}.discard", f"{CONF}.clear"):
            out.append(n)
        elif isinstance(n, ast.Call) and dotted(n.func) == "map" and n.args and A.unparse(n.args[0]) in (f"{CONF}.add", f"{CONF}.remove"):
            out.append(n)
        elif isinstance(n, ast.Call) and dotted(n.func) == "object.__setattr__" and len(n.args) == 3 and A.try_literal(n.args[1]) == "_configurable":
            # re-wrapping the same contents (lock(): list(self._configurable)) does not change the USE set
            v = n.args[2]
            same = isinstance(v, ast.Call) and dotted(v.func) in ("list", "tuple", "frozenset", "set") and len(v.args) == 1 and A.unparse(v.args[0]) == CONF
            if not same:
                out.append(n)
    return out


def gen_bumps(fn):
    return [n for n in A.body_walk(fn.node) if isinstance(n, ast.Call) and dotted(n.func) == "object.__setattr__" and len(n.args) == 3 and A.try_literal(n.args[1]) == "_reuse_pt"]


def _else_rolls_back(loop, ep):
    """the loop's else-branch (no alternative could be forced) rolls back to the entry point `ep`, then returns False"""
    rb = [i for i, s in enumerate(loop.orelse) if M.has(s, "self.rollback($ep)", {"ep": ep})]
    rf = [i for i, s in enumerate(loop.orelse) if M.pat("return False").matches(s) is not None]
    return bool(rb) and bool(rf) and min(rb) < max(rf)


def run(ctx):
    P = ctx.program
    ctx.explanation = META["level"]
    K = P.cls(MOD, PW)
    # ---- R1 / R2 ---------------------------------------------------------------
    mutators = {}
    for name, m in sorted(K.methods.items()):
        ms = mutation_nodes(m)
        if ms and name != "__init__":
            mutators[name] = (m, ms)
    ctx.require(set(mutators) >= {"request_enable", "request_disable", "rollback", "commit"}, f"PackageWrapper: mutators of the USE set not found ({sorted(mutators)})")
    for name, (m, ms) in mutators.items():
        g = cfg_of(m.node)
        bumps = gen_bumps(m)
        bump_nodes = {g.node_of(b) for b in bumps}
        # delegating to another mutator that bumps (self.rollback / self.commit) counts as a bump
        deleg = {g.node_of(c) for c in A.calls(m.node) if A.unparse(c.func) in ("self.rollback", "self.commit")}
        via = lambda nd: nd in bump_nodes or nd in deleg
        for mu in ms:
            mn = g.node_of(mu)
            if via(mn):
                ctx.ob("R1", m, f"{name}: mutation `{A.unparse(mu)[:40]}` and generation bump in one statement", node=mu)
                continue
            path = g.find_path([mn], lambda nd: nd is g.exit, avoid=via)
            ok = path is None
            ctx.check("R1", m, ok, f"mutation-invalidates:{name}@{A.unparse(mu)[:34]}", f"{name}: after `{A.unparse(mu)[:40]}` every path to a normal exit bumps the cache generation",
                      f"PackageWrapper.{name} changes the USE set (`{A.unparse(mu)[:40]}`) and can return without touching _reuse_pt ({g.fmt_path(path, m.relpath) if path else ''}): attributes cached before the change keep being served", node=mu)
        for b in bumps:
            v = b.args[2]
            ok = isinstance(v, ast.BinOp) and isinstance(v.op, ast.Add) and A.unparse(v.left) == "self._reuse_pt" and isinstance(v.right, ast.Constant) and isinstance(v.right.value, int) and v.right.value > 0
            ctx.check("R2", m, ok, f"generation-monotonic:{name}", f"{name}: the generation is advanced (`self._reuse_pt + n`), never reset",
                      f"PackageWrapper.{name} sets the cache generation to `{A.unparse(v)}`: returning to a generation used before makes attributes cached under it valid again (read; enable; commit; read returns the pre-change value)", node=b)
    other = [(name, b) for name, m in K.methods.items() if name not in mutators and name != "__init__" for b in gen_bumps(m)]
    for name, b in other:
        v = b.args[2]
        ok = isinstance(v, ast.BinOp) and A.unparse(v.left) == "self._reuse_pt"
        ctx.check("R2", K.methods[name], ok, f"generation-monotonic:{name}", f"{name}: generation only advances", node=b)
    ctx.floor("R1", 4)
    ctx.floor("R2", 4)

    # ---- R3 refusal rolls back -----------------------------------------------------------
    for name in ("request_enable", "request_disable"):
        m = K.methods[name]
        handlers = [h for n in A.body_walk(m.node) if isinstance(n, ast.Try) for h in n.handlers if h.type is not None and "Unchangable" in A.unparse(h.type)]
        ctx.check("R3", m, len(handlers) >= 2, f"handles-unchangable:{name}", f"{name} handles Unchangable on both the direct and the dependency-driven path")
        # the entry point variable, by role (not by spelling): a local taken from the change counter and/or handed to self.rollback
        ep_names = sorted({mm["ep"] for mm in M.find(m.node, "$ep = self.changes_count()")}
                          | {c.args[0].id for c in A.calls(m.node) if A.unparse(c.func) == "self.rollback" and c.args and isinstance(c.args[0], ast.Name)})
        for h in handlers:
            rb = [c for s in h.body for c in A.calls(s) if A.unparse(c.func) == "self.rollback"]
            ok = len(rb) == 1 and len(rb[0].args) >= 1 and isinstance(rb[0].args[0], ast.Name) and rb[0].args[0].id in ep_names
            ctx.check("R3", m, ok, f"refusal-rolls-back:{name}@{h.lineno - m.node.lineno}", f"{name}: a refused change rolls back to the entry point",
                      f"PackageWrapper.{name}: the Unchangable handler does not roll back to the entry point: a multi-flag request whose first flag was accepted and second refused returns False but leaves the first flag changed", node=h)
        eps = [(v, st) for ep in ep_names for t, v, st in A.assignments(m.node, ep)]
        muts = mutation_nodes(m)
        is_counter = M.pat("self.changes_count()")
        ctx.check("R3", m, bool(eps) and all(is_counter.matches(v) is not None for v, st in eps), f"entry-point-source:{name}", "the entry point is the change counter")
        for mu in muts:
            before = [st for v, st in eps if st.lineno < mu.lineno]
            ctx.check("R3", m, bool(before), f"entry-point-before-mutation:{name}", "the entry point is taken before the first mutation", node=mu)
        # refused dependency-driven path: for/else -> rollback + return False
        fe = [n for n in A.body_walk(m.node) if isinstance(n, ast.For) and n.orelse]
        ok = any(_else_rolls_back(n, ep) for n in fe for ep in ep_names)
        ctx.check("R3", m, ok, f"unforceable-rolls-back:{name}", f"{name}: when no alternative can be forced the partial changes are rolled back and False returned")
    ctx.floor("R3", 12)

    # ---- R4 cache read ----------------------------------------------------------------------
    gw = P.func(MOD, "_getattr_wrapped")
    ifs = [n for n in A.body_walk(gw.node) if isinstance(n, ast.If)]
    ctx.require(ifs, "_getattr_wrapped: staleness test not found")
    from ..core.mirror import canon
    # the cached entry is the local read from the per-attribute cache (whatever it is called)
    ce = M.one(gw.node, "$o = self._cached_wrapped.get(attr)")
    o = ce["o"] if ce else None
    want = canon(ast.parse(f"{o} is None or {o}[0] != self._reuse_pt", mode="eval").body) if o else None
    ctx.check("R4", gw, o is not None and canon(ifs[0].test) == want, "stale-test", "recompute iff nothing is cached or the cached generation differs from the current one", f"staleness test is `{A.unparse(ifs[0].test)}`")
    calls = [c for s in ifs[0].body for c in A.calls(s) if "_wrapped_attr" in A.unparse(c.func)]
    ok = len(calls) == 1 and [A.unparse(a) for a in calls[0].args] == ["getattr(self._raw_pkg, attr)", "self._configurable"]
    ctx.check("R4", gw, ok, "recompute-inputs", "recomputation uses the raw package attribute and the live USE set", f"recomputation call is `{A.unparse(calls[0]) if calls else None}`")
    store = [n for s in ifs[0].body for n in ast.walk(s) if isinstance(n, ast.Tuple) and A.unparse(n.elts[0]) == "self._reuse_pt"]
    ctx.check("R4", gw, bool(store), "stores-generation", "the value is cached together with the generation it was computed under")
    ctx.floor("R4", 3)

    # ---- R5 evaluation input of the tree wrappers ------------------------------------------------
    CT = P.cls("pkgcore.ebuild.repository", "ConfiguredTree")
    cw = CT.assigns.get("config_wrappables")
    ctx.require(isinstance(cw, ast.DictComp), "ConfiguredTree.config_wrappables is not the expected dict comprehension")
    attrs = A.try_literal(cw.generators[0].iter)
    ctx.check("R5", CT, A.unparse(cw.value) == "klass.alias_method('evaluate_depset')", "depsets-evaluated-directly",
              "dependency-style attributes are evaluated by their own evaluate_depset(<enabled USE>)",
              f"ConfiguredTree evaluates dependency attributes through `{A.unparse(cw.value)}` instead of the depset's evaluate_depset with the full USE set: conditionals on flags outside the package's IUSE (arch, elibc_*, kernel_*) are evaluated as if those flags were off")
    need = {"bdepend", "depend", "rdepend", "pdepend", "idepend", "fetchables", "license", "restrict", "required_use"}
    ctx.check("R5", CT, isinstance(attrs, tuple) and need <= set(attrs), "wrapped-attributes", f"all USE-dependent attributes are wrapped ({sorted(need)})", f"wrapped attributes are {attrs}")
    for name, m in CT.methods.items():
        if any("_wrap_attr" in A.unparse(d) for d in m.node.decorator_list) and "evaluate_depset" in A.unparse(m.node):
            ps = m.params()
            ev = [c for c in A.calls(m.node) if A.call_attr(c) == "evaluate_depset"]
            ctx.check("R5", m, all(c.args and A.unparse(c.args[0]) == ps[2] for c in ev), f"wrapper-uses-enabled-use:{name}", f"{name} evaluates under the enabled USE set it is given", node=m.node)
    ctx.floor("R5", 3)


MUTANTS = [
    {"name": "commit-resets-generation", "file": "src/pkgcore/package/conditionals.py", "old": "            # never reuse an earlier generation: attributes cached under it are stale\n            object.__setattr__(self, \"_reuse_pt\", self._reuse_pt + 1)", "new": "            object.__setattr__(self, \"_reuse_pt\", 0)", "rule": "R2"},
    {"name": "disable-no-bump", "file": "src/pkgcore/package/conditionals.py", "old": "                        list(map(self._configurable.remove, vals))\n                        object.__setattr__(self, \"_reuse_pt\", self._reuse_pt + 1)\n                        return True", "new": "                        list(map(self._configurable.remove, vals))\n                        return True", "rule": "R1"},
    {"name": "refusal-no-rollback", "file": "src/pkgcore/package/conditionals.py", "old": "                        list(map(self._configurable.add, vals))\n                        object.__setattr__(self, \"_reuse_pt\", self._reuse_pt + 1)\n                        return True\n                    except Unchangable:\n                        self.rollback(entry_point)", "new": "                        list(map(self._configurable.add, vals))\n                        object.__setattr__(self, \"_reuse_pt\", self._reuse_pt + 1)\n                        return True\n                    except Unchangable:\n                        pass", "rule": "R3"},
    {"name": "rollback-no-bump", "file": "src/pkgcore/package/conditionals.py", "old": "            self._configurable.rollback(point)\n            # yes, nuking objs isn't necessarily required.  easier this way though.\n            # XXX: optimization point\n            object.__setattr__(self, \"_reuse_pt\", self._reuse_pt + 1)", "new": "            self._configurable.rollback(point)", "rule": "R1"},
    {"name": "stale-test-weakened", "file": "src/pkgcore/package/conditionals.py", "old": "    if o is None or o[0] != self._reuse_pt:", "new": "    if o is None or o[0] > self._reuse_pt:", "rule": "R4"},
    {"name": "evaluate-iuse-subset", "file": "src/pkgcore/ebuild/repository.py", "old": "        x: klass.alias_method(\"evaluate_depset\")", "new": "        x: (lambda depset, use, pkg=None: depset.evaluate_depset(pkg.iuse_stripped.intersection(use), pkg=pkg))", "rule": "R5"},
]
TWINS = []
