"""C39 — bug update list changes compose like applying them in sequence; payload = exactly the set fields."""
import ast
import itertools

from ..core import astutil as A
from ..core import match as M
from ..core.model import dotted
from ..core.report import AnalysisError

META = {
    "technique": "abstract interpretation of ListChange.__or__ in the finite element-membership domain: for one arbitrary element x every tuple expression denotes a boolean (x is in it) built from the atoms x∈self.add / self.remove / self.replace / other.* / x∈initial list, plus presence/non-emptiness flags; the function is walked for all valuations allowed by the class invariants of __post_init__ and the denoted change is compared with sequential application (or refusal by __post_init__'s overlap test). Field-coverage table for BugUpdate.to_wire (every dataclass field is emitted under a guard that mentions only that field).",
    "level": "Decides, for ALL add/remove/set pairs and all initial lists (element-wise, order and duplicates aside): the combination built by __or__ either is refused by the overlap/replace invariants or changes membership of every element exactly as applying the two changes in sequence; a set — including the empty set — absorbs what precedes it and stays a set when followed by add/remove. Decides that BugUpdate.to_wire emits every field of the dataclass, each under a guard on that field alone, and nothing else but the ids. Does NOT decide order/duplicate preservation inside the lists.",
    "note": "the walk understands the expression forms used in changes.py (tuple +, generator filters with in/not in, ListChange(...) construction, if/return); another form is an analysis error, not a verdict",
}
META["technique"] += "; " + "set difference / union / order-preserving de-duplication in the element-membership interpreter; dominator rule on to_wire's returns"
META["level"] += " Added after the second round of independent changes: " + 'to_wire cannot return before every field had its chance to be emitted.'
META["technique"] += "; " + 'generic pack G on the anchored files (optional-flag shift, closures outliving a loop iteration, single-pass iterables consumed twice, %-templates built from data, in-place writes to class-level / memoised objects, generators mutating what they yielded, memo keys that are projections)'
MOD = "pkgcore.bugzilla.changes"
FIELDS = ("add", "remove", "replace")


class Elem:
    """membership of the arbitrary element in a collection; `nonempty` is the collection's truthiness"""

    def __init__(self, member, nonempty, present=True):
        self.member, self.nonempty, self.present = member, nonempty or member, present


class Interp:
    def __init__(self, fn, val):
        self.fn, self.val = fn, val
        ps = [a.arg for a in fn.args.args]
        self.me, self.other = ps[0], ps[1]

    def attr(self, who, field):
        k = "1" if who == self.me else "2"
        present = True
        if field == "replace":
            present = self.val["P" + k]
        return Elem(self.val[field[0] + k] and present, self.val["N" + field[0] + k] and present, present)

    def run(self):
        return self.block(self.fn.body, {})

    def block(self, stmts, env):
        for st in stmts:
            if isinstance(st, ast.Pass) or (isinstance(st, ast.Expr) and isinstance(st.value, ast.Constant)):
                continue
            if isinstance(st, ast.If):
                r = self.block(st.body if self.truth(st.test, env) else st.orelse, env)
                if r is not None:
                    return r
                continue
            if isinstance(st, ast.Assign) and len(st.targets) == 1 and isinstance(st.targets[0], ast.Name):
                env[st.targets[0].id] = self.ev(st.value, env)
                continue
            if isinstance(st, ast.Return):
                return self.ev(st.value, env)
            raise AnalysisError(f"set algebra: statement form not understood: {A.unparse(st)[:60]}")
        return None

    def truth(self, e, env):
        if isinstance(e, ast.Compare) and len(e.ops) == 1 and isinstance(e.comparators[0], ast.Constant) and e.comparators[0].value is None:
            v = self.ev(e.left, env)
            if not isinstance(v, Elem):
                raise AnalysisError(f"set algebra: `{A.unparse(e)}` not understood")
            return (not v.present) if isinstance(e.ops[0], ast.Is) else v.present
        if isinstance(e, ast.BoolOp):
            vs = [self.truth(x, env) for x in e.values]
            return all(vs) if isinstance(e.op, ast.And) else any(vs)
        if isinstance(e, ast.UnaryOp) and isinstance(e.op, ast.Not):
            return not self.truth(e.operand, env)
        if isinstance(e, ast.NamedExpr):
            v = self.ev(e.value, env)
            env[e.target.id] = v
            return v.present and v.nonempty
        v = self.ev(e, env)
        if isinstance(v, Elem):
            return v.present and v.nonempty
        if isinstance(v, bool):
            return v
        raise AnalysisError(f"set algebra: truth of `{A.unparse(e)}` not understood")

    def ev(self, e, env, x=None):
        if isinstance(e, ast.Name):
            if e.id in env:
                return env[e.id]
            if e.id in (self.me, self.other):
                return ("change", e.id)
            raise AnalysisError(f"set algebra: free name {e.id}")
        if isinstance(e, ast.Attribute) and isinstance(e.value, ast.Name) and e.value.id in (self.me, self.other) and e.attr in FIELDS:
            return self.attr(e.value.id, e.attr)
        if isinstance(e, ast.BinOp) and isinstance(e.op, (ast.Add, ast.BitOr)):
            l, r = self.ev(e.left, env), self.ev(e.right, env)
            return Elem(l.member or r.member, l.nonempty or r.nonempty)
        if isinstance(e, ast.BinOp) and isinstance(e.op, ast.BitAnd):
            l, r = self.ev(e.left, env), self.ev(e.right, env)
            return Elem(l.member and r.member, l.member and r.member)  # non-emptiness of an intersection: witnessed by x only
        if isinstance(e, ast.BinOp) and isinstance(e.op, ast.Sub):
            l, r = self.ev(e.left, env), self.ev(e.right, env)
            return Elem(l.member and not r.member, l.member and not r.member)  # set difference, witnessed by x only
        if isinstance(e, ast.BinOp) and isinstance(e.op, ast.BitXor):
            l, r = self.ev(e.left, env), self.ev(e.right, env)
            return Elem(l.member != r.member, l.member != r.member)
        if isinstance(e, ast.Call) and isinstance(e.func, ast.Attribute) and e.func.attr in ("union", "difference", "intersection") and len(e.args) == 1:
            l, r = self.ev(e.func.value, env), self.ev(e.args[0], env)
            m = {"union": l.member or r.member, "difference": l.member and not r.member, "intersection": l.member and r.member}[e.func.attr]
            return Elem(m, (l.nonempty or r.nonempty) if e.func.attr == "union" else m)
        if isinstance(e, ast.Call) and (dotted(e.func) or "") in ("dict.fromkeys", "stable_unique", "OrderedDict.fromkeys") and len(e.args) == 1:
            return self.ev(e.args[0], env)  # order-preserving de-duplication: same elements
        if isinstance(e, ast.Call) and isinstance(e.func, ast.Name) and e.func.id in ("tuple", "list", "frozenset", "set", "sorted") and len(e.args) == 1:
            return self.ev(e.args[0], env)
        if isinstance(e, ast.Call) and isinstance(e.func, ast.Name) and e.func.id == "tuple" and not e.args:
            return Elem(False, False)
        if isinstance(e, ast.Tuple) and not e.elts:
            return Elem(False, False)
        if isinstance(e, (ast.GeneratorExp, ast.ListComp, ast.SetComp)) and len(e.generators) == 1:
            gen = e.generators[0]
            if not (isinstance(gen.target, ast.Name) and isinstance(e.elt, ast.Name) and e.elt.id == gen.target.id):
                raise AnalysisError(f"set algebra: comprehension `{A.unparse(e)[:50]}` is not a filter")
            src = self.ev(gen.iter, env)
            keep = all(self.cond(c, env, gen.target.id) for c in gen.ifs)
            # other elements may also survive the filter: non-emptiness stays unknown-but-sound as member-or-source
            return Elem(src.member and keep, src.member and keep)
        if isinstance(e, ast.Call) and dotted(e.func) == "ListChange":
            kw = {k.arg: self.ev(k.value, env) for k in e.keywords}
            if e.args:
                raise AnalysisError("set algebra: positional ListChange(...) not understood")
            return ("new", kw)
        raise AnalysisError(f"set algebra: expression form not understood: {A.unparse(e)[:60]}")

    def cond(self, c, env, var):
        if isinstance(c, ast.Compare) and len(c.ops) == 1 and isinstance(c.left, ast.Name) and c.left.id == var and isinstance(c.ops[0], (ast.In, ast.NotIn)):
            m = self.ev(c.comparators[0], env).member
            return m if isinstance(c.ops[0], ast.In) else not m
        if isinstance(c, ast.BoolOp):
            vs = [self.cond(x, env, var) for x in c.values]
            return all(vs) if isinstance(c.op, ast.And) else any(vs)
        if isinstance(c, ast.UnaryOp) and isinstance(c.op, ast.Not):
            return not self.cond(c.operand, env, var)
        raise AnalysisError(f"set algebra: filter condition `{A.unparse(c)}` not understood")


ATOMS = ["P1", "P2", "a1", "r1", "p1", "a2", "r2", "p2", "Na1", "Nr1", "Np1", "Na2", "Nr2", "Np2", "L"]


def valuations():
    for bits in itertools.product([False, True], repeat=len(ATOMS)):
        v = dict(zip(ATOMS, bits))
        v["r1"] = v["r1"]
        ok = True
        for k in "12":
            P = v["P" + k]
            a, r, p = v["a" + k], v["r" + k], v["p" + k]
            if a and r:
                ok = False  # __post_init__: overlap refused
            if P and (v["Na" + k] or v["Nr" + k] or a or r):
                ok = False  # __post_init__: replace excludes add/remove
            if not P and (p or v["Np" + k]):
                ok = False
            for f in "arp":
                if v[f + k] and not v["N" + f + k]:
                    ok = False  # a member makes the collection non-empty
        if ok:
            # rename p->replace field key used by Interp.attr ('replace'[0] == 'r' clashes with remove): map explicitly
            yield v


def apply_change(P, a, r, p, inl):
    return p if P else ((inl or a) and not r)


def run(ctx):
    P = ctx.program
    ctx.explanation = META["level"]
    LC = P.cls(MOD, "ListChange")
    orf = LC.methods["__or__"]
    pi = LC.methods["__post_init__"]
    # the invariants the valuations rely on (messages are not part of the clause)
    usage = [r for r in A.raises(pi.node) if A.raised_name(r) == "BugzillaUsageError"]
    ctx.check("R1", pi, M.has(pi.node, "if self.replace is not None and (self.add or self.remove):\n    raise $_"), "invariant-replace-excludes-add-remove", "__post_init__ refuses replace together with add/remove")
    ov_tests = ("($o := frozenset(self.add) & frozenset(self.remove))", "frozenset(self.add) & frozenset(self.remove)")
    ov = [n for n in A.body_walk(pi.node) if isinstance(n, ast.If) and any(M.pat(t).matches(n.test) for t in ov_tests)
          and any(isinstance(b, ast.Raise) and A.raised_name(b) == "BugzillaUsageError" for b in n.body)]
    ctx.check("R1", pi, len(ov) == 1 and len(usage) == 2, "invariant-no-overlap", "__post_init__ refuses a value that is both added and removed")

    # ---- R2 composition law ------------------------------------------------------------------------------
    n_val = 0
    bad = None
    for v in valuations():
        n_val += 1

        class I2(Interp):
            def attr(self, who, field):
                k = "1" if who == self.me else "2"
                f = {"add": "a", "remove": "r", "replace": "p"}[field]
                present = self.val["P" + k] if field == "replace" else True
                return Elem(self.val[f + k] and present, self.val["N" + f + k] and present, present)
        res = I2(orf.node, v).run()
        if res is None:
            raise AnalysisError("set algebra: __or__ can fall off its end")
        if res[0] == "change":
            k = "1" if res[1] == orf.params()[0] else "2"
            CP, ca, cr, cp = v["P" + k], v["a" + k], v["r" + k], v["p" + k]
        else:
            kw = res[1]
            rp = kw.get("replace")
            CP = rp is not None and rp.present
            ca = kw["add"].member if "add" in kw else False
            cr = kw["remove"].member if "remove" in kw else False
            cp = rp.member if CP else False
            refused = (ca and cr) or (CP and (ca or cr or (kw.get("add") is not None and kw["add"].nonempty) or (kw.get("remove") is not None and kw["remove"].nonempty)))
            if refused:
                continue
        seq = apply_change(v["P2"], v["a2"], v["r2"], v["p2"], apply_change(v["P1"], v["a1"], v["r1"], v["p1"], v["L"]))
        got = apply_change(CP, ca, cr, cp, v["L"])
        if got != seq and bad is None:
            def show(k):
                if v["P" + k]:
                    return "set(" + ("x" if v["p" + k] else ("…" if v["Np" + k] else "")) + ")"
                return ("add(x)" if v["a" + k] else "") + ("remove(x)" if v["r" + k] else "") or "no change to x"
            bad = (f"first={show('1')}, second={show('2')}, x {'on' if v['L'] else 'not on'} the list: sequential application leaves x {'on' if seq else 'off'} the list, the combination leaves it {'on' if got else 'off'}",
                   f"{show('1')}|{show('2')}|{'in' if v['L'] else 'out'}")
    ctx.check("R2", orf, bad is None, f"composition-law:{bad[1] if bad else 'holds'}", f"for all {n_val} element/flag valuations allowed by the invariants, __or__ equals sequential application (or the result is refused)",
              f"ListChange.__or__ is not sequential composition: {bad[0] if bad else ''}", node=orf.node)
    ctx.check("R2", orf, n_val >= 200, f"valuations:{n_val}", f"{n_val} valuations explored")
    ctx.floor("R2", 2)

    # ---- R3 change wire form ---------------------------------------------------------------------------------
    tw = LC.methods["to_wire"]
    ctx.check("R3", tw, M.has(tw.node, "if self.replace is not None:\n    return {'set': [str($x) for $x in self.replace]}"), "set-emitted-when-present", "a set (even empty) is sent as `set`")
    # the dict that is filled and returned is located by its role (`$wire[...] = ...` under the guard, then `return $wire`)
    m_add = M.one(tw.node, "if self.add:\n    $wire['add'] = $_\n...\nreturn $wire")
    m_rem = M.one(tw.node, "if self.remove:\n    $wire['remove'] = $_\n...\nreturn $wire", m_add.env if m_add else None)
    ctx.check("R3", tw, m_add is not None and m_rem is not None, "add-remove-emitted-when-nonempty", "add/remove are sent only when non-empty")
    bl = LC.methods["__bool__"]
    rets = A.returns(bl.node)
    rv = rets[0].value if len(rets) == 1 else None
    terms = None
    if isinstance(rv, ast.Call) and dotted(rv.func) == "bool" and len(rv.args) == 1 and not rv.keywords and isinstance(rv.args[0], ast.BoolOp) and isinstance(rv.args[0].op, ast.Or):
        terms = sorted(A.unparse(x) for x in rv.args[0].values)
    ctx.check("R3", bl, terms == sorted(["self.add", "self.remove", "self.replace is not None"]), "empty-set-is-a-change", "an explicit empty set counts as a change (it is emitted)")
    ctx.floor("R3", 3)

    # ---- R4 BugUpdate.to_wire field coverage --------------------------------------------------------------------
    BU = P.cls(MOD, "BugUpdate")
    fields = [st.target.id for st in BU.node.body if isinstance(st, ast.AnnAssign) and isinstance(st.target, ast.Name)]
    ctx.require(len(fields) >= 15, f"BugUpdate: only {len(fields)} dataclass fields found")
    uw = BU.methods["to_wire"]
    # the payload variable is the name the method returns (today `wire`)
    urets = sorted(A.returns(uw.node), key=lambda r: r.lineno)
    ctx.require(bool(urets) and all(isinstance(r.value, ast.Name) for r in urets) and len({r.value.id for r in urets}) == 1, "BugUpdate.to_wire: does not return one payload variable")
    wire = urets[-1].value.id

    def self_attrs(n):
        return {x.attr for x in A.walk(n) if isinstance(x, ast.Attribute) and isinstance(x.value, ast.Name) and x.value.id == "self"}

    def wire_stores(n):
        return [s for s in A.walk(n) if isinstance(s, ast.Assign) and isinstance(s.targets[0], ast.Subscript) and isinstance(s.targets[0].value, ast.Name) and s.targets[0].value.id == wire]
    emitted = {}
    for st in uw.node.body:
        if isinstance(st, ast.If):
            mentioned = self_attrs(st.test)
            for s in wire_stores(st):
                inner = [p for p in A.parents(s) if isinstance(p, ast.If) and p is not st]
                for f in self_attrs(s.value):
                    emitted[f] = (mentioned, bool(inner), s)
        elif isinstance(st, ast.For) and isinstance(st.iter, (ast.Tuple, ast.List)) and isinstance(st.target, ast.Name):
            names = [e.value for e in st.iter.elts if isinstance(e, ast.Constant)]
            env = {"wire": wire, "name": st.target.id}
            # if <c> := [cast(..., ]getattr(self, <name>)[)]:  wire[<name>] = <c>.to_wire()   — directly in the loop body
            ms = [m for m in M.find(st.body, "if ($c := $$v):\n    $wire[$name] = $c.to_wire()", env) if any(m.node is b for b in st.body)]
            ok = False
            for m in ms:
                v = m.env["$v"]
                src = v.args[-1] if isinstance(v, ast.Call) and dotted(v.func) in ("typing.cast", "cast") and len(v.args) == 2 else v
                ok = ok or (M.pat("getattr(self, $name)").matches(src, env) is not None and not self_attrs(m.node.test))
            for f in names:
                emitted[f] = ({f}, not ok, st)
    for f in fields:
        e = emitted.get(f)
        if not ctx.check("R4", uw, e is not None, f"field-emitted:{f}", f"field `{f}` has an emission in to_wire", f"BugUpdate.{f} is never written to the wire payload: setting it has no effect", node=uw.node):
            continue
        mentioned, nested, node = e
        ctx.check("R4", uw, mentioned == {f} and not nested, f"guard-own-field:{f}:{sorted(mentioned)}", f"`{f}` is emitted whenever it is set (guard mentions only `{f}`)",
                  f"BugUpdate.{f} is emitted under a guard that also depends on {sorted(mentioned - {f}) or 'an inner condition'}: a set `{f}` can be dropped from the payload", node=node)
    extra = set(emitted) - set(fields)
    ctx.check("R4", uw, not extra, f"no-extra-fields:{sorted(extra)}", "nothing but dataclass fields (and the ids) is emitted")
    ids_ok = any(M.has(uw.node.body, "if not ids:\n    raise $_\n...\n" + init, {"wire": wire})
                 for init in ("$wire: $_ = {'ids': [BugId(int($x)) for $x in ids]}", "$wire = {'ids': [BugId(int($x)) for $x in ids]}"))
    ctx.check("R4", uw, ids_ok, "ids-always", "the id list is always sent and must not be empty")
    # every emission is passed on every way out: no early return can skip a set field
    from ..core.cfg import cfg_of
    gw = cfg_of(uw.node)
    domw = gw.dominators()
    def top_stmt(n):
        for st_ in uw.node.body:
            if st_ is n or A.contains_node(st_, n):
                return st_
        return n
    em_nodes = {f: gw.node_of(top_stmt(e[2])) for f, e in emitted.items() if e is not None and f in fields}
    for r in urets:
        rn = gw.node_of(r)
        skipped = sorted(f for f, n in em_nodes.items() if n is not None and n not in domw.get(rn, ()))
        ctx.check("R4", uw, not skipped, "return-skips-fields:" + ",".join(skipped[:4]),
                  f"`return {A.unparse(r.value)}` (line {r.lineno}) is reached only after every field had its chance to be emitted",
                  f"BugUpdate.to_wire can `return` at line {r.lineno} before the emission of {skipped[:6]}{'...' if len(skipped) > 6 else ''}: set fields are left out of the payload "
                  f"(e.g. an update whose only set fields are falsy — whiteboard='' — is sent as ids only)", node=r)
    ctx.floor("R4", 30)


F = "src/pkgcore/bugzilla/changes.py"
MUTANTS = [
    {"name": "empty-set-falls-through", "file": F, "old": "        if self.replace is not None:\n            # a set followed", "new": "        if self.replace:\n            # a set followed", "rule": "R2"},
    {"name": "revert-set-then-add-ignored", "file": F, "old": "        if self.replace is not None:\n            # a set followed by add/remove is still a set, of the adjusted values\n            kept = tuple(x for x in self.replace if x not in other.remove)\n            return ListChange(\n                replace=kept + tuple(x for x in other.add if x not in kept)\n            )\n", "new": "        if self.replace is not None:\n            return self\n", "rule": "R2"},
    {"name": "opposites-cancel", "file": F, "old": "        return ListChange(\n            add=self.add + tuple(x for x in other.add if x not in self.add),\n            remove=self.remove + tuple(x for x in other.remove if x not in self.remove),\n        )", "new": "        touched = self.add + self.remove\n        add = tuple(x for x in self.add if x not in other.remove)\n        remove = tuple(x for x in self.remove if x not in other.add)\n        return ListChange(\n            add=add + tuple(x for x in other.add if x not in touched),\n            remove=remove + tuple(x for x in other.remove if x not in touched),\n        )", "rule": "R2"},
    {"name": "later-set-ignored", "file": F, "old": "        if other.replace is not None:\n            return other\n", "new": "        if other.replace is not None and self.replace is None:\n            return other\n", "rule": "R2"},
    {"name": "set-keeps-removed", "file": F, "old": "            kept = tuple(x for x in self.replace if x not in other.remove)", "new": "            kept = tuple(x for x in self.replace)", "rule": "R2"},
    {"name": "resolution-only-when-resolved", "file": F, "old": "        if self.resolution is not None:\n            wire[\"resolution\"] = str(self.resolution)", "new": "        if self.resolution is not None and self.status is Status.RESOLVED:\n            wire[\"resolution\"] = str(self.resolution)", "rule": "R4"},
    {"name": "groups-not-sent", "file": F, "old": "        for name in (\"cc\", \"keywords\", \"blocks\", \"depends_on\", \"see_also\", \"groups\"):", "new": "        for name in (\"cc\", \"keywords\", \"blocks\", \"depends_on\", \"see_also\"):", "rule": "R4"},
    {"name": "empty-set-not-a-change", "file": F, "old": "        return bool(self.add or self.remove or self.replace is not None)", "new": "        return bool(self.add or self.remove or self.replace)", "rule": "R3"},
]
TWINS = [
    {"name": "dedupe-in-other-order", "file": F, "old": "            add=self.add + tuple(x for x in other.add if x not in self.add),", "new": "            add=tuple(x for x in self.add if x not in other.add) + other.add,"},
]
