"""C06 — boolean restriction trees evaluate as propositional logic; normal forms agree (structural clauses)."""
import ast

from ..core import generic as G
from ..core import astutil as A
from ..core import match as M
from ..core.cfg import cfg_of
from ..core.dtable import IMPLICIT_NONE, boolean_node_table
from ..core.model import ClassInfo, dotted

META = {
    "technique": "decision-table extraction of every boolean node's match() by path enumeration over opaque child predicates (children 0..3, every outcome vector, negate on/off) compared with the truth table of the node kind; CFG rule 'match/force_* never fall off the end' over all restriction classes; sibling rule 'the negate arm of a normal-form generator terminates and delegates to the De Morgan dual over Negate() of every child'",
    "level": "Decides: (R1) the match() decision tables of And/Or/JustOne/AtMostOne nodes, restriction.AnyMatch, Negate, AlwaysBool and PackageRestriction equal the propositional truth tables for up to 3 children, all child outcomes and both negate values (96 rows per n-ary node); (R2) no match/force_True/force_False of any restriction class can return an implicit None; (R3) in every DNF/CNF generator the `negate` arm either raises NotImplementedError or returns right after delegating to the dual node built from restriction.Negate of every child. Does NOT decide logical equivalence of the derived normal forms for arbitrary trees.",
    "note": "child.match(...) is an opaque predicate; tables for more than 3 children are not enumerated (the loops are uniform in the child index)",
}
META["technique"] += "; " + 'late-binding closure analysis; try/except fallback agreement on compared fields'
META["level"] += " Added after the second round of independent changes: " + '(R3) a negate arm asks the dual node for the SAME normal form; (R5) no closure created in a loop of the restriction modules outlives its iteration while reading loop variables; (R6) an except-fallback in a match() consults every compared field the main path consults.'
META["technique"] += "; " + 'generic pack G on the anchored files (optional-flag shift, closures outliving a loop iteration, single-pass iterables consumed twice, %-templates built from data, in-place writes to class-level / memoised objects, generators mutating what they yielded, memo keys that are projections)'


def spec_and(n, o, neg):
    return all(o) != neg


def spec_or(n, o, neg):
    return any(o) != neg


def spec_justone(n, o, neg):
    return (n == 0 or sum(o) == 1) != neg


def spec_atmost(n, o, neg):
    return (sum(o) <= 1) != neg


NODES = [
    ("pkgcore.restrictions.boolean", "AndRestriction", spec_and, "all children match"),
    ("pkgcore.restrictions.boolean", "OrRestriction", spec_or, "some child matches"),
    ("pkgcore.restrictions.boolean", "JustOneRestriction", spec_justone, "exactly one child matches (or no children)"),
    ("pkgcore.restrictions.boolean", "AtMostOneOfRestriction", spec_atmost, "at most one child matches"),
]


def is_child_match(call):
    return isinstance(call.func, ast.Attribute) and call.func.attr == "match" and isinstance(call.func.value, ast.Name)


def run(ctx):
    P = ctx.program
    ctx.explanation = META["level"]
    # ---- R1 decision tables -----------------------------------------------------
    for modname, cname, spec, what in NODES:
        K = P.cls(modname, cname)
        m = K.methods.get("match")
        ctx.require(m is not None, f"{cname}.match not found")
        rows = boolean_node_table(m.node, is_child_match)
        bad = [(k, r) for k, r in rows if r is not spec(k[0], k[1], k[2])]
        for (n, o, neg, _), r in rows:
            pass
        ctx.ob("R1", m, f"{cname}.match: {len(rows)} rows (children 0..3 x outcomes x negate) equal `({what}) xor negate`")
        if bad:
            (n, o, neg, _), r = bad[0]
            ctx.fail("R1", m, f"table:{cname}:n={n},o={''.join('T' if x else 'F' for x in o)},neg={neg}",
                     f"{cname}.match with children outcomes {list(o)} and negate={neg} returns {r!r}; `({what}) xor negate` is {spec(n, o, neg)} ({len(bad)} of {len(rows)} rows differ)")
        for k, r in rows:
            ctx._rule_counts[f"{ctx.prop}.R1"] = ctx._rule_counts.get(f"{ctx.prop}.R1", 0) + 0
    # restriction.AnyMatch: some element matches, xor negate
    AM = P.cls("pkgcore.restrictions.restriction", "AnyMatch")
    m = AM.methods["match"]
    loop = [n for n in m.node.body if isinstance(n, ast.For)]
    ctx.require(loop and isinstance(loop[0].iter, ast.Name), "restriction.AnyMatch.match: element loop not found")
    itname = loop[0].iter.id

    def am_pred(call):
        return isinstance(call.func, ast.Attribute) and call.func.attr == "match" and A.unparse(call.func.value) == "self.restriction"

    import itertools
    from ..core.dtable import Walker

    bad = 0
    total = 0
    for n in range(4):
        for o in itertools.product([False, True], repeat=n):
            for neg in (False, True):
                def oracle(e, env, w, o=o, neg=neg):
                    if A.unparse(e) == "self.negate":
                        return neg
                    if isinstance(e, ast.Call) and am_pred(e):
                        arg = e.args[0]
                        v = env.get(arg.id) if isinstance(arg, ast.Name) else None
                        if isinstance(v, tuple) and v[0] == "child":
                            return o[v[1]]
                    return NotImplemented
                w = Walker(oracle, (itname,), n)
                res = w.run(m.node, {p: ("param", p) for p in m.params()})
                total += 1
                if res is not (any(o) != neg):
                    bad += 1
                    first = (n, o, neg, res)
    ctx.ob("R1", m, f"restriction.AnyMatch.match: {total} rows equal `(some element matches) xor negate`")
    if bad:
        ctx.fail("R1", m, f"table:AnyMatch:{first[:3]}", f"restriction.AnyMatch.match row {first[:3]} returns {first[3]!r}")
    # Negate / AlwaysBool / PackageRestriction
    NG = P.cls("pkgcore.restrictions.restriction", "Negate")
    r = A.returns(NG.methods["match"].node)
    ok = len(r) == 1 and M.pat("return not self._restrict.match(...)").matches(r[0]) is not None
    ctx.check("R1", NG.methods["match"], ok, "table:Negate", "Negate.match is `not inner.match(...)`")
    AB = P.cls("pkgcore.restrictions.restriction", "AlwaysBool")
    for name, want in (("match", "self.negate"), ("force_True", "self.negate"), ("force_False", "not self.negate")):
        r = A.returns(AB.methods[name].node)
        ctx.check("R1", AB.methods[name], len(r) == 1 and A.unparse(r[0].value) == want, f"table:AlwaysBool.{name}", f"AlwaysBool.{name} returns `{want}`")
    PR = P.cls("pkgcore.restrictions.packages", "PackageRestriction")
    pm = PR.methods["match"]
    rets = [A.unparse(x.value) for x in A.returns(pm.node)]
    # the pulled attribute is bound by its role (result of self._pull_attr(pkg)), not by its spelling
    shape = M.one(pm.node.body, "$attr = self._pull_attr(pkg)\nif $attr is klass.sentinel:\n    return self.negate\nreturn self.restriction.match($attr) != self.negate")
    ctx.check("R1", pm, shape is not None and len(rets) == 2, "table:PackageRestriction",
              "PackageRestriction.match: missing attribute -> negate; otherwise inner match xor negate", f"PackageRestriction.match returns {rets}")
    ctx.floor("R1", 10)

    # ---- R2 no implicit None ----------------------------------------------------------
    rbase = P.cls("pkgcore.restrictions.restriction", "base")
    n_methods = 0
    for K in sorted(P.all_classes(), key=lambda c: c.fq):
        if not (K is rbase or any(x is rbase for x in P.mro(K))):
            # value helpers that quack like restrictions
            if K.module.name != "pkgcore.restrictions.values" or "match" not in K.methods:
                continue
        for name in ("match", "force_True", "force_False"):
            m = K.methods.get(name)
            if m is None:
                continue
            is_gen = any(isinstance(n, (ast.Yield, ast.YieldFrom)) for n in A.body_walk(m.node))
            if is_gen:
                ctx.note(f"{K.qual}.{name} is a generator (its call result is always truthy)")
                continue
            body = m.node.body
            if all(isinstance(s, (ast.Expr, ast.Pass)) for s in body) or (len(body) == 1 and isinstance(body[0], ast.Raise)):
                continue  # abstract stub
            g = cfg_of(m.node)
            falls = [p for p, _ in g.exit.pred if p.kind != "return"]
            bare = [p for p, _ in g.exit.pred if p.kind == "return" and p.ast.value is None]
            n_methods += 1
            where = ""
            if falls:
                where = f"after line {falls[0].line}"
            ctx.check("R2", m, not falls and not bare, "implicit-none",
                      f"{K.qual}.{name} returns a value on every path",
                      f"{K.qual}.{name} can fall off the end {where} and return None instead of a boolean (a negated restriction then reports no match)", node=m.node)
    ctx.require(n_methods >= 40, f"only {n_methods} match/force_* methods analysed")

    # ---- R3 negate arms of the normal-form generators -----------------------------------
    DUAL = {"AndRestriction": "OrRestriction", "OrRestriction": "AndRestriction"}
    for cname, dual in DUAL.items():
        K = P.cls("pkgcore.restrictions.boolean", cname)
        for name in ("iter_dnf_solutions", "dnf_solutions", "cnf_solutions", "iter_cnf_solutions"):
            m = K.methods.get(name)
            if m is None:
                continue
            negs = [n for n in m.node.body if isinstance(n, ast.If) and A.unparse(n.test) == "self.negate"]
            if not negs:
                # thin wrapper delegating to a sibling
                ctx.check("R3", m, any(A.call_attr(c) in ("iter_dnf_solutions", "iter_cnf_solutions", "cnf_solutions", "dnf_solutions") for c in A.calls(m.node)),
                          f"wrapper:{name}", f"{cname}.{name} delegates to its sibling generator")
                continue
            ni = negs[0]
            g = cfg_of(m.node)
            start = g.node_of(ni)
            after = [g.node_of(s) for s in m.node.body[m.node.body.index(ni) + 1:]]
            after = [x for x in after if x is not None]
            # paths that take the negate arm must not reach the statements after the if
            reach = g.reach([start], edge_ok=lambda a_, b_, lab: not (a_ is start and lab is False))
            falls = [x for x in after if x in reach]
            ctx.check("R3", m, not falls, f"negate-arm-terminates:{name}",
                      f"{cname}.{name}: the negate arm ends in return/raise",
                      f"{cname}.{name}: the `if self.negate:` arm falls through into the un-negated code (line {falls[0].line if falls else '?'}): "
                      f"a negated node also yields the solutions of the plain node", node=ni)
            raises = [x for s in ni.body for x in ast.walk(s) if isinstance(x, ast.Raise)]
            if raises and all("NotImplementedError" in A.unparse(x) for x in raises):
                ctx.ob("R3", m, f"{cname}.{name}: negation is refused with NotImplementedError", node=ni)
                continue
            ctor = [c for s in ni.body for c in A.calls(s) if dotted(c.func) == dual]
            ok = False
            if ctor:
                c = ctor[0]
                st = [a for a in c.args if isinstance(a, ast.Starred)]
                if st and isinstance(st[0].value, (ast.ListComp, ast.GeneratorExp)):
                    comp = st[0].value
                    ok = (A.unparse(comp.elt) in (f"restriction.Negate({A.unparse(comp.generators[0].target)})",)
                          and A.unparse(comp.generators[0].iter) == "self.restrictions" and not comp.generators[0].ifs)
            ctx.check("R3", m, ok, f"demorgan:{name}", f"{cname}.{name}: negation delegates to {dual}(*[Negate(x) for every child])",
                      f"{cname}.{name}: the negate arm does not build {dual} over restriction.Negate of every child", node=ni)
            # ... and asks the dual for the SAME normal form (a DNF of the dual is not a CNF of this node)
            form = "cnf" if "cnf" in name else "dnf"
            asked = sorted({A.call_attr(c) for s_ in ni.body for c in A.calls(s_) if (A.call_attr(c) or "").endswith("_solutions")})
            ctx.check("R3", m, bool(asked) and all(form in a_ for a_ in asked), f"demorgan-form:{name}",
                      f"{cname}.{name}: the negate arm asks the dual node for its {form.upper()}",
                      f"{cname}.{name} is a {form.upper()} generator but its negate arm returns the dual node's {asked}: the clauses of the other normal "
                      f"form are handed out as {form.upper()} clauses ((!a)&&(!b) instead of (!a||!b))", node=ni)
    ctx.floor("R3", 6)

    # ---- R4 CNF of an any-of distributes over EVERY conjunctive alternative ------------------------------
    oc = P.func("pkgcore.restrictions.boolean", "OrRestriction.cnf_solutions")
    dist = []
    for lp in [n for n in A.body_walk(oc.node) if isinstance(n, ast.For) and isinstance(n.target, ast.Name)]:
        for st in lp.body:
            if isinstance(st, ast.Assign) and isinstance(st.value, ast.ListComp) and len(st.value.generators) == 2 and isinstance(st.targets[0], ast.Name):
                acc = st.targets[0].id
                its = {A.unparse(g.iter) for g in st.value.generators}
                if its == {acc, lp.target.id}:
                    dist.append((lp, st))
    ctx.check("R4", oc, len(dist) == 1, "cnf-distribution", "OrRestriction.cnf_solutions multiplies the accumulated clauses by each conjunctive alternative in turn (one cross product per and-group)",
              "OrRestriction.cnf_solutions no longer takes one cross product per conjunctive alternative: `|| ( ( a b ) ( c d ) )` yields clauses that are not equivalent to the tree")
    if dist:
        lp, st = dist[0]
        elt = A.unparse(st.value.elt)
        names = [g.target.id for g in st.value.generators if isinstance(g.target, ast.Name)]
        used = {x.id for x in ast.walk(st.value.elt) if isinstance(x, ast.Name)}
        ctx.check("R4", oc, len(names) == 2 and all(n in used for n in names) and isinstance(st.value.elt, ast.BinOp) and isinstance(st.value.elt.op, ast.Add), "cnf-clause-extension", "each new clause is an old clause extended by one literal of the alternative", node=st)
    rets = A.returns(oc.node)
    ctx.check("R4", oc, any(A.unparse(r.value) == "[]" for r in rets), "cnf-empty-or", "an any-of without children has no clauses listed (handled before distribution)")

    # ---- R5 no closure built in a loop outlives its iteration (cross products built lazily) -----------------------
    G.late_binding(ctx, "R5", ["src/pkgcore/restrictions/boolean.py", "src/pkgcore/restrictions/values.py", "src/pkgcore/restrictions/packages.py",
                                "src/pkgcore/restrictions/restriction.py"])
    ctx.floor("R5", 1)

    # ---- R6 an except-fallback inside match() consults every configuration field the main path consults -----------
    from ..core import eqhash
    EQ = eqhash.Engine(P)
    n6 = 0
    for modname in ("pkgcore.restrictions.values", "pkgcore.restrictions.packages", "pkgcore.restrictions.boolean", "pkgcore.restrictions.restriction"):
        for K in P.module(modname).classes.values():
            m = K.methods.get("match")
            if m is None:
                continue
            owner_, fields = EQ.attr_comparison(K)
            fields = set(fields or ())
            for t in [n for n in A.body_walk(m.node) if isinstance(n, ast.Try)]:
                def cfg_reads(stmts):
                    return {n.attr for st_ in stmts for n in ast.walk(st_) if isinstance(n, ast.Attribute) and isinstance(n.value, ast.Name) and n.value.id == "self" and n.attr in fields}
                def returns_value(stmts):
                    return any(isinstance(n, ast.Return) and n.value is not None and not isinstance(n.value, ast.Constant) for st_ in stmts for n in ast.walk(st_))
                if not returns_value(t.body):
                    continue
                for h in t.handlers:
                    if not returns_value(h.body):
                        continue
                    n6 += 1
                    lost = sorted(cfg_reads(t.body) - cfg_reads(h.body))
                    ctx.check("R6", m, not lost, f"fallback-ignores:{K.name}:{','.join(lost)}",
                              f"{K.name}.match: the `except {A.unparse(h.type) if h.type else ''}` fallback consults the same compared fields as the main path",
                              f"{K.name}.match: the `except {A.unparse(h.type) if h.type else ''}` fallback no longer consults {lost}, which the main path (and equality) "
                              f"distinguish: values that can only be tested with `in` are matched as if {lost} had its default", node=h)
    ctx.require(n6 >= 1, "no try/except fallback with a computed result found in any restriction match()")
    ctx.floor("R6", 1)


MUTANTS = [
    {"name": "and-match-returns-wrong-polarity", "file": "src/pkgcore/restrictions/boolean.py", "old": "            if not rest.match(vals):\n                return self.negate\n        return not self.negate", "new": "            if not rest.match(vals):\n                return self.negate\n        return self.negate if not self.restrictions else not self.negate", "rule": "R1"},
    {"name": "justone-empty-false", "file": "src/pkgcore/restrictions/boolean.py", "old": "        if not self.restrictions:\n            return not self.negate\n\n        armed = False", "new": "        armed = False", "rule": "R1"},
    {"name": "atmostone-second-hit-ignored", "file": "src/pkgcore/restrictions/boolean.py", "old": "            if armed:\n                return self.negate\n            armed = True\n        return not self.negate", "new": "            armed = True\n        return not self.negate", "rule": "R1"},
    {"name": "or-match-negate-dropped", "file": "src/pkgcore/restrictions/boolean.py", "old": "            if rest.match(vals):\n                return not self.negate\n        return self.negate", "new": "            if rest.match(vals):\n                return True\n        return self.negate", "rule": "R1"},
    {"name": "and-dnf-negate-fallthrough", "file": "src/pkgcore/restrictions/boolean.py", "old": "            ).iter_dnf_solutions()\n            return\n        if not self.restrictions:\n            yield []\n            return\n        hardreqs = []", "new": "            ).iter_dnf_solutions()\n        if not self.restrictions:\n            yield []\n            return\n        hardreqs = []", "rule": "R3"},
    {"name": "demorgan-without-negate", "file": "src/pkgcore/restrictions/boolean.py", "old": "            yield from OrRestriction(\n                *[restriction.Negate(x) for x in self.restrictions],", "new": "            yield from OrRestriction(\n                *[x for x in self.restrictions],", "rule": "R3"},
    {"name": "pkgrestriction-missing-attr-polarity", "file": "src/pkgcore/restrictions/packages.py", "old": "        if attr is klass.sentinel:\n            return self.negate\n        return self.restriction.match(attr) != self.negate", "new": "        if attr is klass.sentinel:\n            return False\n        return self.restriction.match(attr) != self.negate", "rule": "R1"},
]
TWINS = [
    {"name": "and-match-all-form", "file": "src/pkgcore/restrictions/boolean.py", "old": "        for rest in self.restrictions:\n            if not rest.match(vals):\n                return self.negate\n        return not self.negate", "new": "        return all(rest.match(vals) for rest in self.restrictions) != self.negate"},
    {"name": "or-match-any-form", "file": "src/pkgcore/restrictions/boolean.py", "old": "        for rest in self.restrictions:\n            if rest.match(vals):\n                return not self.negate\n        return self.negate", "new": "        if any(rest.match(vals) for rest in self.restrictions):\n            return not self.negate\n        return self.negate"},
]
