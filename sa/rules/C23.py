"""C23 — merge-time permission hardening never lets unsafe modes through (structural clauses)."""
import ast

from ..core import generic as G
from ..core import astutil as A
from ..core import match as M
from ..core.model import dotted

META = {
    "technique": "effect rule (the hardening triggers change entries only through change_attributes with keywords in {mode, uid, gid}), constant evaluation of the mode masks (selection predicate vs cleared bits, permission bits only), iteration-source rule (ownership fixes see every entry kind), registration table (hook, cset, engine modes, default triggers) and cset-wiring rule (what pre_merge hardens is what merge installs)",
    "level": "Decides: (R1) fix_uid_perms / fix_gid_perms / fix_set_bits / detect_world_writable modify the cset only via cset.update(x.change_attributes(<mode|uid|gid>=...)): type, location, target and data cannot change; (R2) fix_set_bits selects entries with (mode & 06000) and (mode & 0002) and clears a mask covering 06000 so no selected entry still satisfies the predicate, and the replacement mode is `mode & ~mask` so file-type bits survive; (R3) the ownership fixes iterate the whole cset (symlinks and devices included) and compare against the configured build uid/gid; (R4) all four run in the pre_merge hook on new_cset for installing modes, and the engine's install/replace csets alias that same preserved new_cset, so the merge step installs the hardened entries. Does NOT decide concrete mode sets.",
    "note": "change_attributes returns a copy with only the named attributes replaced (fs.fsBase, checked structurally in R1)",
}
META["technique"] += "; " + 'single-pass-iterable reuse analysis; data-in-format-template lint'
META["level"] += " Added after the second round of independent changes: " + "(R5) no lazily built list of offenders is consumed twice on one path; no warning builds its %-template out of data (a '%' in a path cannot abort the correction)."
META["technique"] += "; " + 'generic pack G on the anchored files (optional-flag shift, closures outliving a loop iteration, single-pass iterables consumed twice, %-templates built from data, in-place writes to class-level / memoised objects, generators mutating what they yielded, memo keys that are projections)'
TRG = "pkgcore.merge.triggers"
ENG = "pkgcore.merge.engine"
NAMES = ("fix_uid_perms", "fix_gid_perms", "fix_set_bits", "detect_world_writable")
ALLOWED_KW = {"mode", "uid", "gid"}


COMPS = (ast.GeneratorExp, ast.ListComp, ast.SetComp)


def _mode_and(expr, entry):
    """`<entry>.mode & K` (either operand order) -> the int K, else None"""
    if not (isinstance(expr, ast.BinOp) and isinstance(expr.op, ast.BitAnd)):
        return None
    for a, b in ((expr.left, expr.right), (expr.right, expr.left)):
        if A.unparse(a) == f"{entry}.mode":
            k = A.try_literal(b)
            return k if isinstance(k, int) and not isinstance(k, bool) else None
    return None


def _cleared_mask(mv, entry):
    """`<entry>.mode & ~MASK` -> the int MASK, else None"""
    m = M.pat(f"{entry}.mode & ~$$k").matches(mv) if mv is not None else None
    k = A.try_literal(m["$k"]) if m else None
    return k if isinstance(k, int) and not isinstance(k, bool) else None


def _comp_of(call):
    """the comprehension a change_attributes(...) call is the element of"""
    par = getattr(call, "_parent", None)
    return par if isinstance(par, COMPS) and par.elt is call else None


def _selection(fn, comp, depth=0):
    """the comprehension that carries the filter deciding which entries `comp` sees: `comp` itself when it has a
    condition, else the (single) comprehension assigned to the local it iterates"""
    g = comp.generators[0]
    if g.ifs or depth > 3:
        return comp if g.ifs else None
    if isinstance(g.iter, ast.Name):
        vals = [v for _t, v, _st in A.assignments(fn.node, g.iter.id)]
        if len(vals) == 1 and isinstance(vals[0], COMPS) and len(vals[0].generators) == 1:
            return _selection(fn, vals[0], depth + 1)
    return None


def _resolve_local(fn, expr):
    """a local Name with exactly one assignment stands for the assigned value"""
    if isinstance(expr, ast.Name):
        vals = [v for _t, v, _st in A.assignments(fn.node, expr.id)]
        if len(vals) == 1:
            return vals[0]
    return expr


def run(ctx):
    P = ctx.program
    ctx.explanation = META["level"]
    for name in NAMES:
        K = P.cls(TRG, name)
        tr = K.methods.get("trigger")
        ctx.require(tr is not None, f"{name}.trigger not found")
        cs = tr.params()[2]
        # ---- R1 effects ----------------------------------------------------------
        muts = [c for c in A.calls(tr.node) if isinstance(c.func, ast.Attribute) and A.unparse(c.func.value) == cs and c.func.attr in
                ("update", "add", "remove", "discard", "difference_update", "clear", "intersection_update", "symmetric_difference_update", "__delitem__", "__setitem__")]
        ctx.require(muts, f"{name}.trigger: no modification of the cset found")
        for c in muts:
            ok = c.func.attr == "update" and len(c.args) == 1 and not c.keywords and isinstance(c.args[0], (ast.GeneratorExp, ast.ListComp)) and isinstance(c.args[0].elt, ast.Call) and A.call_attr(c.args[0].elt) == "change_attributes"
            ctx.check("R1", tr, ok, f"effect:{c.func.attr}", f"{name} modifies the cset only through update(change_attributes(...))", f"{name} modifies the cset with `{A.unparse(c)[:70]}`", node=c)
            if ok:
                ca = c.args[0].elt
                kws = {k.arg for k in ca.keywords}
                ctx.check("R1", tr, kws <= ALLOWED_KW and not ca.args and bool(kws), f"attrs:{','.join(sorted(map(str, kws)))}", f"{name} changes only {sorted(kws)}",
                          f"{name} rewrites attributes {sorted(map(str, kws))}; only mode/uid/gid may change", node=ca)
                # the element updated is the element iterated (same entry, same location)
                gen = c.args[0].generators[0]
                ctx.check("R1", tr, len(c.args[0].generators) == 1 and isinstance(gen.target, ast.Name) and isinstance(ca.func, ast.Attribute) and A.unparse(ca.func.value) == gen.target.id, "same-entry", f"{name} replaces each selected entry by its own copy", node=ca)
        for n in A.body_walk(tr.node):
            if isinstance(n, (ast.Delete,)) or (isinstance(n, ast.Assign) and any(isinstance(t, ast.Subscript) and A.unparse(t.value) == cs for t in n.targets)):
                ctx.check("R1", tr, False, "effect:subscript", "", f"{name} edits the cset by subscript: `{A.unparse(n)[:60]}`", node=n)
    ctx.floor("R1", 12)
    ca_fn = P.func("pkgcore.fs.fs", "fsBase.change_attributes")
    kwp = ca_fn.node.args.kwarg.arg if ca_fn.node.args.kwarg else None
    copies = kwp is not None and M.has(ca_fn.node, f"$d = {{$k: getattr(self, $k) for $k in self.__attrs__ if $_}}\n$d.update({kwp})\nreturn self.__class__($_, **$d)")
    ctx.check("R1", ca_fn, copies, "change_attributes-copies", "change_attributes builds a new object of the same class from the old attributes plus overrides")

    # ---- R2 masks -----------------------------------------------------------------------
    fsb = P.func(TRG, "fix_set_bits.trigger")
    upd = [c for c in A.calls(fsb.node) if A.call_attr(c) == "change_attributes"]
    ctx.require(upd, "fix_set_bits.trigger: change_attributes call not found")
    comp = _comp_of(upd[0])
    sel = _selection(fsb, comp) if comp is not None else None
    if sel is None:
        ctx.check("R2", fsb, False, "selection-predicate", "", "fix_set_bits: the comprehension selecting the entries to correct was not found (the correction is not applied to a filtered set of entries)", node=upd[0])
    else:
        sg = sel.generators[0]
        ent = A.unparse(sg.target)
        cond = sg.ifs[0]
        conj = cond.values if isinstance(cond, ast.BoolOp) and isinstance(cond.op, ast.And) else []
        masks = [_mode_and(v, ent) for v in conj]
        ok = len(sg.ifs) == 1 and len(sel.generators) == 1 and (sel is comp or A.unparse(sel.elt) == ent) and sorted(masks, key=lambda m: (m is None, m or 0)) == [0o002, 0o6000]
        ctx.check("R2", fsb, ok, "selection-predicate", "fix_set_bits selects entries that are set-id (06000) AND world-writable (0002)", f"selection predicate is `{A.unparse(cond)}`", node=cond)
    ent_u = A.unparse(comp.generators[0].target) if comp is not None else None
    mv = next((k.value for k in upd[0].keywords if k.arg == "mode"), None)
    cleared = _cleared_mask(mv, ent_u)
    ctx.check("R2", fsb, cleared is not None, "mask-form", "the new mode is `old_mode & ~MASK` (every bit outside MASK, including the file-type bits of device entries, is kept)",
              f"fix_set_bits computes the new mode as `{A.unparse(mv) if mv is not None else None}`: a keep-mask drops bits it does not list (e.g. S_IFCHR/S_IFBLK of device entries)", node=upd[0])
    if cleared is not None:
        ctx.check("R2", fsb, (cleared & 0o6000) == 0o6000 or (cleared & 0o002) == 0o002, "mask-defeats-predicate", f"the cleared mask {oct(cleared)} removes the set-id bits or the world-write bit of every selected entry", node=upd[0])
        ctx.check("R2", fsb, cleared & ~0o7777 == 0, "mask-perm-bits-only", "the cleared mask touches permission bits only")
    dww = P.func(TRG, "detect_world_writable.trigger")
    upd2 = [c for c in A.calls(dww.node) if A.call_attr(c) == "change_attributes"]
    comp2 = _comp_of(upd2[0]) if upd2 else None
    mv2 = next((k.value for k in upd2[0].keywords if k.arg == "mode"), None) if upd2 else None
    ctx.check("R2", dww, comp2 is not None and _cleared_mask(mv2, A.unparse(comp2.generators[0].target)) == 0o002, "world-writable-mask", "detect_world_writable(fix_perms) clears exactly the world-write bit")
    ctx.floor("R2", 3)

    # ---- R3 ownership fixes see every entry ------------------------------------------------
    for name, attr, bad, good in (("fix_uid_perms", "uid", "portage_uid", "root_uid"), ("fix_gid_perms", "gid", "portage_gid", "root_gid")):
        tr = P.func(TRG, f"{name}.trigger")
        cs = tr.params()[2]
        upd = [c for c in A.calls(tr.node) if A.call_attr(c) == "update" and isinstance(c.func, ast.Attribute) and A.unparse(c.func.value) == cs]
        ctx.require(upd, f"{name}.trigger: no {cs}.update(...) found")
        init = P.func(TRG, f"{name}.__init__")
        comp = upd[0].args[0] if upd[0].args and isinstance(upd[0].args[0], COMPS) else None
        if comp is None:
            ctx.check("R3", tr, False, "iterates-whole-cset", "", f"{name} no longer updates the cset from a pass over its entries: `{A.unparse(upd[0])[:70]}`", node=upd[0])
            ctx.check("R3", tr, False, "selects-bad-owner", "", f"{name}: selection of the entries owned by the build {attr} not found", node=upd[0])
        else:
            gen = comp.generators[0]
            ctx.check("R3", tr, len(comp.generators) == 1 and A.unparse(gen.iter) == cs, "iterates-whole-cset", f"{name} looks at every entry of the cset (symlinks, devices and fifos included)",
                      f"{name} iterates `{A.unparse(gen.iter)}` instead of the whole cset: entry kinds left out keep the build user's ownership", node=upd[0])
            # the one filter is `<entry>.<attr> == <the configured build id>`; the build id is self.<field>, which
            # __init__ sets from its first parameter (default os_data.portage_*)
            ent = A.unparse(gen.target)
            m = M.pat(f"{ent}.{attr} == $$b").matches(gen.ifs[0]) or M.pat(f"$$b == {ent}.{attr}").matches(gen.ifs[0]) if len(gen.ifs) == 1 else None
            fld = M.pat("self.$fld").matches(_resolve_local(tr, m["$b"])) if m else None
            ip = init.params()
            configured = fld is not None and len(ip) >= 2 and M.has(init.node, f"self.{fld['fld']} = {ip[1]}") and len([1 for n in ast.walk(init.node) if isinstance(n, ast.Attribute) and isinstance(n.ctx, ast.Store) and n.attr == fld["fld"]]) == 1
            ctx.check("R3", tr, configured, "selects-bad-owner", f"{name} selects entries owned by the build {attr}", node=upd[0])
        d = [A.unparse(x) for x in init.node.args.defaults]
        ctx.check("R3", init, d == [f"os_data.{bad}", f"os_data.{good}"], "defaults", f"{name} defaults: replace os_data.{bad} by os_data.{good}", f"{name} defaults are {d}")
    ctx.floor("R3", 6)

    # ---- R4 registration and cset wiring ------------------------------------------------------
    for name in NAMES:
        K = P.cls(TRG, name)
        vals = {k: A.unparse(K.assigns[k]) if k in K.assigns else None for k in ("required_csets", "_hooks", "_engine_types")}
        ctx.check("R4", K, vals == {"required_csets": "('new_cset',)", "_hooks": "('pre_merge',)", "_engine_types": "INSTALLING_MODES"}, "registration", f"{name}: pre_merge hook, new_cset, installing modes", f"{name} registration is {vals}")
    # the trigger classes are *referenced* (as names, not as strings of __all__) by the default-trigger builders
    dflt = [f.node for f in P.module(TRG).funcs.values() if f.name.startswith("default") or "plugins" in f.name]
    dflt += list(P.module(TRG).assigns.values())
    dflt += [f.node for m in (P.module("pkgcore.ebuild.domain"), P.module("pkgcore.ebuild.ebd")) for f in m.funcs.values()]
    refs = set()
    for root in dflt:
        for n in ast.walk(root):
            if isinstance(n, ast.Name):
                refs.add(n.id)
            elif isinstance(n, ast.Attribute):
                refs.add(n.attr)
    for name in NAMES[:3]:
        ctx.check("R4", P.module(TRG), name in refs, f"default-trigger:{name}", f"{name} is instantiated among the default triggers")
    ME = P.cls(ENG, "MergeEngine")
    ic = ME.assigns.get("install_csets")
    lit = {A.try_literal(k): A.unparse(v) for k, v in zip(ic.keys, ic.values)} if isinstance(ic, ast.Dict) else {}
    ctx.check("R4", ME, lit.get("install") == "partial(alias_cset, 'new_cset')" and lit.get("new_cset") == "partial(alias_cset, 'raw_new_cset')", "install-aliases-new_cset",
              "the cset the merge hook installs is an alias of new_cset, the cset pre_merge hardened", f"install_csets = {lit}: the merge step would install entries the pre_merge fixes never touched")
    pres = A.try_literal(ME.assigns.get("install_csets_preserve"))
    rpres = A.try_literal(ME.assigns.get("replace_csets_preserve"))
    ctx.check("R4", ME, pres == ["new_cset"] and "new_cset" in (rpres or ()), "new_cset-preserved", "new_cset is preserved across hooks (its hardened entries are not regenerated from the raw package contents)", f"preserve lists: install={pres} replace={rpres}")
    ctx.floor("R4", 9)

    # ---- R5 the list of offenders survives the warning loop; warnings cannot abort the correction -------------------
    TF = ["src/pkgcore/merge/triggers.py", "src/pkgcore/merge/engine.py"]
    G.single_pass(ctx, "R5", TF)
    G.format_templates(ctx, "R5", TF)
    ctx.floor("R5", 2)


MUTANTS = [
    {"name": "uid-skips-symlinks", "file": "src/pkgcore/merge/triggers.py", "old": "        cset.update(x.change_attributes(uid=good) for x in cset if x.uid == bad)", "new": "        cset.update(x.change_attributes(uid=good) for x in cset.iterlinks(True) if x.uid == bad)", "rule": "R3"},
    {"name": "install-aliases-raw", "file": "src/pkgcore/merge/engine.py", "old": "        \"install\": partial(alias_cset, \"new_cset\"),", "new": "        \"install\": partial(alias_cset, \"raw_new_cset\"),", "rule": "R4"},
    {"name": "keep-mask", "file": "src/pkgcore/merge/triggers.py", "old": "            cset.update(x.change_attributes(mode=x.mode & ~0o6002) for x in l)", "new": "            cset.update(x.change_attributes(mode=x.mode & 0o1775) for x in l)", "rule": "R2"},
    {"name": "selection-or", "file": "src/pkgcore/merge/triggers.py", "old": "if (x.mode & 0o6000) and (x.mode & 0o002)]", "new": "if (x.mode & 0o4000) and (x.mode & 0o002)]", "rule": "R2"},
    {"name": "gid-changes-location", "file": "src/pkgcore/merge/triggers.py", "old": "        cset.update(x.change_attributes(gid=good) for x in cset if x.gid == bad)", "new": "        cset.update(x.change_attributes(gid=good, location=x.location.rstrip('/')) for x in cset if x.gid == bad)", "rule": "R1"},
    {"name": "set-bits-wrong-hook", "file": "src/pkgcore/merge/triggers.py", "old": "class fix_set_bits(base):\n    required_csets = (\"new_cset\",)\n    _hooks = (\"pre_merge\",)", "new": "class fix_set_bits(base):\n    required_csets = (\"new_cset\",)\n    _hooks = (\"post_merge\",)", "rule": "R4"},
    {"name": "mask-too-small", "file": "src/pkgcore/merge/triggers.py", "old": "mode=x.mode & ~0o6002) for x in l)", "new": "mode=x.mode & ~0o4000) for x in l)", "rule": "R2"},
]
TWINS = []
