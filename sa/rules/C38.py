"""C38 — package-list rewriting touches only the lines it must (storage / partition / rewrite-guard clauses)."""
import ast

from ..core import astutil as A
from ..core import match as M
from ..core.model import dotted

META = {
    "technique": "who-may-write rule on the stored text (rendering is the stored text; nothing rebinds it), slice-partition rule for a parsed line (raw + eol is the line, by construction of the two slices), identity pass-through rule in expand (an entry is replaced only under the keywords-changed test; blank lines and an unchanged list are returned as the same objects), re-join shape (raw + eol per entry, in order), build/parse field-order agreement",
    "level": "Decides the structural clauses: the text of a PackageList is stored once and rendered as is (parse never normalises it); every parsed line keeps its content and its line ending as two complementary slices of the original line, lines coming from splitlines(keepends=True); expand() re-emits entry.raw + entry.eol in order, rewrites an entry only when its expanded keywords differ from the written ones, passes blank/comment lines through untouched and returns the very same list when nothing changed; with_keywords leaves entries without a package spec alone and keeps the comment slice and the leading spec slice of the original raw text; build() writes `spec keyword…` lines that _parse splits into the same fields. Does NOT decide the exact spacing produced inside a rewritten line (that is a value-level property of the slices in with_keywords).",
    "note": "first written as not-applicable (DESIGN §6); the storage/partition/guard clauses turned out to be expressible without matching source text",
}
META["technique"] += "; " + 'generic pack G on the anchored files (optional-flag shift, closures outliving a loop iteration, single-pass iterables consumed twice, %-templates built from data, in-place writes to class-level / memoised objects, generators mutating what they yielded, memo keys that are projections)'
MOD = "pkgcore.bugzilla.pkglist"


def run(ctx):
    P = ctx.program
    ctx.explanation = META["level"]
    PL = P.cls(MOD, "PackageList")
    # ---- R1 stored text ------------------------------------------------------------------------------
    writers = []
    for m in PL.methods.values():
        for t_, v, st in A.assignments(m.node):
            if A.unparse(t_) == "self.text":
                writers.append((m.name, A.unparse(v)))
    ctx.check("R1", PL, writers == [("__init__", "text")], f"text-written-once:{writers}", "the text is stored by __init__ only, exactly as given",
              f"PackageList.text is assigned in {writers}: parsing/rendering no longer reproduces the original text byte for byte", node=PL.node)
    st = PL.methods["__str__"]
    ctx.check("R1", st, A.unparse(st.node.body[-1]) == "return self.text", "render-is-stored-text", "rendering returns the stored text")
    for c in P.all_classes():
        if c.module.name == MOD and c is not PL:
            continue
    ctx.check("R1", PL, "text" in (A.try_literal(PL.assigns.get("__slots__"), default=()) or ()), "immutable-slots", "PackageList is an immutable slotted object")
    ctx.floor("R1", 3)

    # ---- R2 line partition ---------------------------------------------------------------------------------
    pa = PL.methods["_parse"]
    loop = [n for n in pa.node.body if isinstance(n, ast.For)]
    ctx.require(len(loop) == 1, "_parse: line loop not found")
    it = A.unparse(loop[0].iter)
    ctx.check("R2", pa, "self.text.splitlines(keepends=True)" in it, f"lines-keep-ends:{it[:50]}", "lines come from splitlines(keepends=True): their concatenation is the text",
              f"_parse iterates `{it}`: line endings are lost, so CRLF / a missing final newline cannot be reproduced", node=loop[0])
    line = A.unparse(loop[0].target.elts[1]) if isinstance(loop[0].target, ast.Tuple) else A.unparse(loop[0].target)
    part = M.one(loop[0], f"$raw = {line}.rstrip('\\r\\n')\n$eol = {line}[len($raw):]")
    ctx.check("R2", pa, part is not None, "raw-eol-partition", "raw is the line without its ending and eol the remaining suffix: raw + eol == line",
              "the content and the line ending of a parsed line are no longer complementary slices of the line (`raw = line.rstrip('\\r\\n')`, `eol = line[len(raw):]`)", node=loop[0])
    rawv, eolv = (part["raw"], part["eol"]) if part else ("raw", "eol")
    ents = [c for c in A.calls(loop[0]) if dotted(c.func) == "PackageListEntry"]
    ctx.check("R2", pa, len(ents) == 2 and all(A.unparse(c.args[1]) == rawv and (eolv in [A.unparse(a) for a in c.args] or any(k.arg == "eol" and A.unparse(k.value) == eolv for k in c.keywords)) for c in ents), "entries-carry-raw-and-eol", "every entry (blank or not) carries its raw text and its line ending")
    ctx.check("R2", pa, any(A.unparse(c.args[2]) == "None" for c in ents), "blank-lines-are-entries", "blank and comment-only lines are kept as entries without a package")
    ctx.floor("R2", 4)

    # ---- R3 rewrite guard / pass-through ----------------------------------------------------------------------------
    ex = PL.methods["expand"]
    loop = [n for n in ex.node.body if isinstance(n, ast.For)]
    ctx.require(len(loop) == 1, "expand: entry loop not found")
    ev = A.unparse(loop[0].target)
    rew = [c for c in A.calls(loop[0]) if A.call_attr(c) == "with_keywords"]
    ctx.require(len(rew) == 1, "expand: with_keywords call not found")
    g = next((p for p in A.parents(rew[0]) if isinstance(p, ast.If)), None)
    ok = g is not None and isinstance(g.test, ast.Compare) and isinstance(g.test.ops[0], ast.NotEq) and f"{ev}.keywords" in A.unparse(g.test) and A.unparse(rew[0].args[0]) in A.names_in(g.test)
    ctx.check("R3", ex, ok, f"rewrite-only-if-keywords-changed:{A.unparse(g.test)[:40] if g is not None else ''}", "an entry is rewritten only when its expanded keywords differ from the written ones",
              "expand rewrites entries without testing whether their keywords changed: lines without sentinels are re-rendered (keyword spacing normalised) instead of staying byte-identical", node=rew[0])
    blank = [n for n in loop[0].body if isinstance(n, ast.If) and A.unparse(n.test) == f"{ev}.pkg is None"]
    acc = M.one(ex.node, "return PackageList(''.join(($x.raw + $x.eol for $x in $acc)), bug_id=self.bug_id)")
    accv = acc["acc"] if acc else "expanded"
    ok = len(blank) == 1 and M.has(blank[0].body, f"{accv}.append({ev})\ncontinue") and not any(A.call_attr(c) == "with_keywords" for c in A.calls(blank[0]))
    ctx.check("R3", ex, ok, "blank-lines-pass-through", "blank/comment lines are appended as they are")
    t = A.unparse(ex.node)
    chg = M.one(ex.node, "$c = False\n...\nif not $c:\n    return self")
    ctx.check("R3", ex, chg is not None and g is not None and M.has(g.body, "$c = True", chg.env), "unchanged-list-is-self", "when nothing changed the same list object (same text) is returned")
    ctx.check("R3", ex, acc is not None, "rejoin-raw-eol-in-order", "the new text is raw + eol of every entry, in order")
    apps = [c for c in A.calls(loop[0]) if A.unparse(c.func) == f"{accv}.append"]
    ctx.check("R3", ex, len(apps) == 2 and all(A.unparse(c.args[0]) == ev for c in apps), "every-entry-kept", "every entry is appended exactly once (blank branch or main path)")
    wk = P.func(MOD, "PackageListEntry.with_keywords")
    tw = A.unparse(wk.node)
    ctx.check("R3", wk, M.has(wk.node, "if self.pkg is None:\n    return self"), "no-spec-no-rewrite", "with_keywords leaves an entry without a package spec alone")
    cm_ = M.one(wk.node, "$at = len(self.raw)\nif ($m := _COMMENT_RE.search(self.raw)):\n    $at = $m.end() - 1")
    ctx.check("R3", wk, cm_ is not None and M.has(wk.node, "self.raw[$at:]", cm_.env), "comment-slice-kept", "the comment (from its '#') is carried over as a slice of the original text")
    bd_ = M.one(wk.node, "$body = self.raw[:$at]", cm_.env if cm_ else None)
    ctx.check("R3", wk, bd_ is not None and M.has(wk.node, "$head = $body[:$toks[1].start()]", bd_.env) and M.has(wk.node, "$body[$toks[-1].end():]", bd_.env), "spec-and-tail-slices-kept", "the spec with the spacing after it, and whatever follows the last keyword, are slices of the original text")
    rp = [c for c in A.calls(wk.node) if dotted(c.func) == "dataclasses.replace"]
    ctx.check("R3", wk, len(rp) == 1 and A.unparse(rp[0].args[0]) == "self" and {k.arg for k in rp[0].keywords} == {"keywords", "raw"}, "only-raw-and-keywords-change", "only raw and keywords are replaced (lineno, pkg, comment, eol stay)")
    ctx.floor("R3", 9)

    # ---- R4 build/parse agreement -------------------------------------------------------------------------------------
    bd = PL.methods["build"]
    tb = A.unparse(bd.node)
    ctx.check("R4", bd, M.has(bd.node, "'\\n'.join((' '.join((str($p), *$k)).rstrip() for ($p, $k) in entries))"), "build-format", "build writes `spec keyword keyword…`, one entry per line")
    tpa = A.unparse(pa.node)
    tk = M.one(pa.node, "if not ($toks := $b.split()):\n    ...")
    ctx.check("R4", pa, tk is not None and M.has(pa.node, "$p = parse_atom($toks[0])", tk.env) and M.has(pa.node, "tuple($toks[1:])", tk.env), "parse-fields", "parse takes the first field as the spec and the rest as keywords")
    ctx.check("R4", pa, M.has(pa.node, "if ($m := _COMMENT_RE.search($b)):\n    ($c, $b) = ($b[$m.end() - 1:], $b[:$m.start()])"), "comment-split", "the comment starts at a '#' that begins a word")
    ctx.floor("R4", 3)

    # ---- R5 one notion of "blank" ---------------------------------------------------------------------------
    from ..core import rx as RX
    mod = P.module(MOD)

    def lit(name):
        v = mod.assigns.get(name)
        if isinstance(v, ast.Call) and dotted(v.func) == "re.compile" and v.args and isinstance(v.args[0], ast.Constant):
            return v.args[0].value
        return None
    cre, tre = lit("_COMMENT_RE"), lit("_TOKEN_RE")
    ctx.require(cre is not None and tre is not None, "pkglist: _COMMENT_RE / _TOKEN_RE literals not found")

    def blank_notions(pattern):
        """how the pattern speaks of blanks: {'\\s', '\\S', 'explicit:<chars>'}"""
        out = set()

        def walk(sub):
            for op, av in sub:
                name = str(op)
                if name == "IN":
                    cats = [str(a[1]) for a in av if str(a[0]) == "CATEGORY"]
                    lits = [chr(a[1]) for a in av if str(a[0]) == "LITERAL"]
                    neg = any(str(a[0]) == "NEGATE" for a in av)
                    for c in cats:
                        if c.endswith("CATEGORY_SPACE") and not c.endswith("NOT_SPACE"):
                            out.add("\\S" if neg else "\\s")
                        elif c.endswith("NOT_SPACE"):
                            out.add("\\s" if neg else "\\S")
                    if lits and all(ch.isspace() for ch in lits):
                        out.add("explicit:" + "".join(sorted(repr(ch)[1:-1] for ch in lits)))
                elif name == "CATEGORY":
                    out.add("\\S" if str(av).endswith("NOT_SPACE") else "\\s")
                elif name == "LITERAL" and chr(av).isspace():
                    out.add("explicit:" + repr(chr(av))[1:-1])
                elif name in ("SUBPATTERN",):
                    walk(av[3])
                elif name == "BRANCH":
                    for alt in av[1]:
                        walk(alt)
                elif name in ("MAX_REPEAT", "MIN_REPEAT"):
                    walk(av[2])
        walk(RX.parse(pattern))
        return out
    cn, tn = blank_notions(cre), blank_notions(tre)
    ctx.check("R5", PL, cn == {"\\s"} and tn == {"\\S"}, f"one-notion-of-blank:{sorted(cn)}/{sorted(tn)}", "comment detection (\\s before '#') and tokenising (\\S+, str.split()) use the same notion of blank",
              f"the comment regex speaks of blanks as {sorted(cn)} while tokens are {sorted(tn)} / str.split(): a '#' after a blank the comment regex does not know (no-break space, U+2003) is tokenised as a keyword, and the comment is rewritten away on expansion", node=mod.assigns.get("_COMMENT_RE"))
    splits = [c for c in A.calls(pa.node) if A.call_attr(c) == "split" and not c.args]
    ctx.check("R5", pa, len(splits) == 1, "fields-split-on-any-blank", "_parse splits fields on any whitespace (str.split() without argument)")
    ctx.floor("R5", 2)

F = "src/pkgcore/bugzilla/pkglist.py"
MUTANTS = [
    {"name": "text-normalised-on-init", "file": F, "old": "        self.text = text\n        self.bug_id = bug_id", "new": "        self.text = text.replace(\"\\r\\n\", \"\\n\")\n        self.bug_id = bug_id", "rule": "R1"},
    {"name": "lines-lose-endings", "file": F, "old": "self.text.splitlines(keepends=True)", "new": "self.text.splitlines()", "rule": "R2"},
    {"name": "eol-always-newline", "file": F, "old": "            eol = line[len(raw) :]", "new": "            eol = \"\\n\" if len(line) > len(raw) else \"\"", "rule": "R2"},
    {"name": "always-rewrite", "file": F, "old": "            if previous != entry.keywords:\n                entry = entry.with_keywords(previous)\n                changed = True", "new": "            entry = entry.with_keywords(previous)\n            changed = True", "rule": "R3"},
    {"name": "rejoin-with-newline", "file": F, "old": "\"\".join(x.raw + x.eol for x in expanded)", "new": "\"\\n\".join(x.raw for x in expanded)", "rule": "R3"},
    {"name": "comment-dropped", "file": F, "old": "                f\"{body[tokens[-1].end() :]}{self.raw[comment_at:]}\"", "new": "                f\"{body[tokens[-1].end() :]}\"", "rule": "R3"},
    {"name": "blank-lines-dropped", "file": F, "old": "            if entry.pkg is None:\n                expanded.append(entry)\n                continue", "new": "            if entry.pkg is None:\n                continue", "rule": "R3"},
]
MUTANTS += [
    {"name": "comment-regex-ascii-blanks", "file": F, "old": "re.compile(r\"(?:^|\\s)#\")", "new": "re.compile(r\"(?:^|[ \\t])#\")", "rule": "R5"},
]
TWINS = []
