"""refactor_battery.py [Cnn ...] — behaviour-preserving refactorings that every check must stay silent on.

For each property, the Python files its anchors name are rewritten (in memory, as an overlay; /repo is not touched):
  rename   every local variable of every function is renamed (x -> x_rn); parameters, globals, closures untouched
  logmsg   every string literal passed to a logger / warning / exception constructor gets a suffix
  docpass  a `pass` statement is appended to every function body and docstrings are changed
The property's rules are then run on the overlay.  A finding or an analysis error that the current tree does not have
means the check matched spelling, not behaviour.  Development-time tool: reports, changes nothing."""
import ast, glob, importlib, json, os, sys
from concurrent.futures import ProcessPoolExecutor
HERE = os.path.dirname(os.path.dirname(os.path.abspath(__file__)))


def _root():
    from sa.core.model import repo_root
    return repo_root()
SCOPES = (ast.FunctionDef, ast.AsyncFunctionDef, ast.Lambda, ast.ClassDef)


def _walk_scope(node):
    """nodes of a function body, not descending into nested scopes"""
    stack = list(ast.iter_child_nodes(node))
    while stack:
        n = stack.pop()
        yield n
        if isinstance(n, SCOPES):
            continue
        stack.extend(ast.iter_child_nodes(n))


def rename_locals(tree):
    n_renamed = 0
    for fn in [n for n in ast.walk(tree) if isinstance(n, (ast.FunctionDef, ast.AsyncFunctionDef))]:
        params = {a.arg for a in fn.args.args + fn.args.kwonlyargs + fn.args.posonlyargs}
        if fn.args.vararg:
            params.add(fn.args.vararg.arg)
        if fn.args.kwarg:
            params.add(fn.args.kwarg.arg)
        body_nodes = [n for st in fn.body for n in [st] + list(_walk_scope(st))] if True else []
        if any(isinstance(n, ast.Call) and isinstance(n.func, ast.Name) and n.func.id in ("locals", "vars", "eval", "exec") for n in body_nodes):
            continue
        declared = set()
        for n in body_nodes:
            if isinstance(n, (ast.Global, ast.Nonlocal)):
                declared |= set(n.names)
        assigned = set()
        for n in body_nodes:
            if isinstance(n, ast.Name) and isinstance(n.ctx, ast.Store):
                assigned.add(n.id)
            if isinstance(n, ast.ExceptHandler) and n.name:
                assigned.add(n.name)
        # names captured by nested scopes stay
        captured = set()
        for n in body_nodes:
            if isinstance(n, SCOPES):
                for m in ast.walk(n):
                    if isinstance(m, ast.Name):
                        captured.add(m.id)
                    if isinstance(m, (ast.Nonlocal, ast.Global)):
                        captured |= set(m.names)
        # nested function / class names defined here are Store-less; keep them (also when the same spelling is
        # re-bound later as a plain local: renaming only the Name nodes would break the reference to the def)
        nested_defs = {n.name for n in body_nodes if isinstance(n, (ast.FunctionDef, ast.AsyncFunctionDef, ast.ClassDef))}
        todo = assigned - params - declared - captured - nested_defs - {"_", "__class__"}
        todo = {x for x in todo if not x.startswith("__")}
        if not todo:
            continue
        for n in body_nodes:
            if isinstance(n, ast.Name) and n.id in todo:
                n.id = n.id + "_rn"
                n_renamed += 1
            if isinstance(n, ast.ExceptHandler) and n.name in todo:
                n.name = n.name + "_rn"
    return n_renamed


def logmsg(tree):
    n = 0
    for c in ast.walk(tree):
        if not isinstance(c, ast.Call):
            continue
        f = ast.unparse(c.func)
        if f.startswith(("logger.", "logging.", "warnings.")) or f.split(".")[-1][:1].isupper() and f.split(".")[-1].endswith(("Error", "Exception", "Failure", "Failed", "Invalid", "Warning")):
            for a in c.args[:1]:
                if isinstance(a, ast.Constant) and isinstance(a.value, str) and a.value:
                    a.value = a.value + " (reworded)"
                    n += 1
                elif isinstance(a, ast.JoinedStr) and a.values and isinstance(a.values[-1], ast.Constant):
                    a.values[-1].value = a.values[-1].value + " (reworded)"
                    n += 1
    return n


def docpass(tree):
    n = 0
    for fn in [x for x in ast.walk(tree) if isinstance(x, (ast.FunctionDef, ast.AsyncFunctionDef))]:
        if fn.body and isinstance(fn.body[0], ast.Expr) and isinstance(fn.body[0].value, ast.Constant) and isinstance(fn.body[0].value.value, str):
            fn.body[0].value.value = fn.body[0].value.value + "\n(doc touched)"
            n += 1
    return n


def noop(tree):
    """insert a no-op expression statement (what an added logging line looks like to a checker) at the start of every
    function body and after every assignment / expression statement inside functions"""
    n = 0
    for fn in [x for x in ast.walk(tree) if isinstance(x, (ast.FunctionDef, ast.AsyncFunctionDef))]:
        for holder in ast.walk(fn):
            for fld in ("body", "orelse", "finalbody"):
                body = getattr(holder, fld, None)
                if not (isinstance(body, list) and body and isinstance(body[0], ast.stmt)):
                    continue
                if isinstance(holder, ast.ClassDef):
                    continue
                new = []
                for i, st in enumerate(body):
                    new.append(st)
                    is_doc = i == 0 and holder is fn and fld == "body" and isinstance(st, ast.Expr) and isinstance(st.value, ast.Constant) and isinstance(st.value.value, str)
                    if isinstance(st, (ast.Assign, ast.AugAssign, ast.AnnAssign)) or is_doc:
                        new.append(ast.Expr(ast.Constant(None)))
                        n += 1
                if holder is fn and fld == "body" and not (isinstance(body[0], ast.Expr) and isinstance(body[0].value, ast.Constant)):
                    new.insert(0, ast.Expr(ast.Constant(None)))
                    n += 1
                setattr(holder, fld, new)
    return n


def rettemp(tree):
    """`return <call / expression>` becomes `result_rt = <...>; return result_rt` (introduce explaining variable)"""
    n = 0
    for fn in [x for x in ast.walk(tree) if isinstance(x, (ast.FunctionDef, ast.AsyncFunctionDef))]:
        if any(isinstance(x, (ast.Yield, ast.YieldFrom)) for x in _walk_scope(fn)):
            pass
        for holder in [fn] + [x for x in _walk_scope(fn)]:
            for fld in ("body", "orelse", "finalbody"):
                body = getattr(holder, fld, None)
                if not (isinstance(body, list) and body and isinstance(body[0], ast.stmt)) or isinstance(holder, ast.ClassDef):
                    continue
                new = []
                for st in body:
                    if isinstance(st, ast.Return) and st.value is not None and not isinstance(st.value, (ast.Constant, ast.Name)):
                        new.append(ast.Assign([ast.Name("result_rt", ast.Store())], st.value))
                        new.append(ast.Return(ast.Name("result_rt", ast.Load())))
                        n += 1
                    else:
                        new.append(st)
                setattr(holder, fld, new)
            if isinstance(holder, ast.Try):
                for h in holder.handlers:
                    new = []
                    for st in h.body:
                        if isinstance(st, ast.Return) and st.value is not None and not isinstance(st.value, (ast.Constant, ast.Name)):
                            new.append(ast.Assign([ast.Name("result_rt", ast.Store())], st.value))
                            new.append(ast.Return(ast.Name("result_rt", ast.Load())))
                            n += 1
                        else:
                            new.append(st)
                    h.body = new
    return n


def ifflip(tree):
    """`if c: A else: B` (no elif) becomes `if not c: B else: A`"""
    n = 0
    for node in ast.walk(tree):
        if isinstance(node, ast.If) and node.orelse and not (len(node.orelse) == 1 and isinstance(node.orelse[0], ast.If)):
            # leave elif chains alone (the if under an else of an elif chain is itself an `elif`)
            par_else = False
            node.test = node.test.operand if (isinstance(node.test, ast.UnaryOp) and isinstance(node.test.op, ast.Not)) else ast.UnaryOp(ast.Not(), node.test)
            node.body, node.orelse = node.orelse, node.body
            n += 1
    return n


def eqswap(tree):
    """`a == b` becomes `b == a` (also !=) when both sides are names / attributes / constants"""
    n = 0
    simple = (ast.Name, ast.Attribute, ast.Constant)
    for node in ast.walk(tree):
        if isinstance(node, ast.Compare) and len(node.ops) == 1 and isinstance(node.ops[0], (ast.Eq, ast.NotEq)) \
                and isinstance(node.left, simple) and isinstance(node.comparators[0], simple):
            node.left, node.comparators[0] = node.comparators[0], node.left
            n += 1
    return n


def notwrap(tree):
    """`a not in b` becomes `not (a in b)`, `a is not b` becomes `not (a is b)` (the other spelling of the same test)"""
    n = 0

    class T(ast.NodeTransformer):
        def visit_Compare(self, node):
            nonlocal n
            self.generic_visit(node)
            if len(node.ops) == 1 and isinstance(node.ops[0], (ast.NotIn, ast.IsNot)):
                n += 1
                pos = ast.Compare(node.left, [ast.In() if isinstance(node.ops[0], ast.NotIn) else ast.Is()], node.comparators)
                return ast.UnaryOp(ast.Not(), pos)
            return node
    T().visit(tree)
    return n


def _pure(e):
    return not any(isinstance(x, (ast.Call, ast.Await, ast.Yield, ast.YieldFrom, ast.NamedExpr, ast.Subscript, ast.Attribute)) for x in ast.walk(e))


def reorder(tree):
    """two adjacent plain assignments `a = <pure>; b = <pure>` that do not read each other's target are swapped"""
    n = 0
    for fn in [x for x in ast.walk(tree) if isinstance(x, (ast.FunctionDef, ast.AsyncFunctionDef))]:
        for holder in [fn] + list(_walk_scope(fn)):
            for fld in ("body", "orelse", "finalbody"):
                body = getattr(holder, fld, None)
                if not (isinstance(body, list) and body and isinstance(body[0], ast.stmt)) or isinstance(holder, ast.ClassDef):
                    continue
                i = 0
                while i + 1 < len(body):
                    a, b = body[i], body[i + 1]
                    ok = all(isinstance(x, ast.Assign) and len(x.targets) == 1 and isinstance(x.targets[0], ast.Name) and _pure(x.value) for x in (a, b))
                    if ok:
                        ta, tb = a.targets[0].id, b.targets[0].id
                        ra = {x.id for x in ast.walk(a.value) if isinstance(x, ast.Name)}
                        rb = {x.id for x in ast.walk(b.value) if isinstance(x, ast.Name)}
                        if ta != tb and ta not in rb and tb not in ra:
                            body[i], body[i + 1] = b, a
                            n += 1
                            i += 2
                            continue
                    i += 1
    return n


def ternary(tree):
    """`if c: x = A else: x = B` (same plain target, nothing else) becomes `x = A if c else B`"""
    n = 0

    class T(ast.NodeTransformer):
        def visit_If(self, node):
            nonlocal n
            self.generic_visit(node)
            if len(node.body) == 1 and len(node.orelse) == 1 and all(isinstance(x, ast.Assign) and len(x.targets) == 1 and isinstance(x.targets[0], ast.Name) for x in (node.body[0], node.orelse[0])) \
                    and node.body[0].targets[0].id == node.orelse[0].targets[0].id:
                n += 1
                return ast.Assign([ast.Name(node.body[0].targets[0].id, ast.Store())], ast.IfExp(node.test, node.body[0].value, node.orelse[0].value))
            return node
    T().visit(tree)
    return n


def condtemp(tree):
    """`if <call or comparison>:` becomes `cond_ct = <...>; if cond_ct:` (explaining variable for a condition); elif tests are
    left alone (they cannot be hoisted without changing evaluation order)"""
    n = 0
    for fn in [x for x in ast.walk(tree) if isinstance(x, (ast.FunctionDef, ast.AsyncFunctionDef))]:
        k = 0
        for holder in [fn] + list(_walk_scope(fn)):
            for fld in ("body", "orelse", "finalbody"):
                body = getattr(holder, fld, None)
                if not (isinstance(body, list) and body and isinstance(body[0], ast.stmt)) or isinstance(holder, ast.ClassDef):
                    continue
                if fld == "orelse" and isinstance(holder, ast.If) and len(body) == 1 and isinstance(body[0], ast.If):
                    continue  # an elif
                new = []
                for st in body:
                    if isinstance(st, ast.If) and isinstance(st.test, (ast.Call, ast.Compare)) and not any(isinstance(x, (ast.NamedExpr, ast.Await, ast.Yield)) for x in ast.walk(st.test)):
                        k += 1
                        name = f"cond_ct{k}"
                        new.append(ast.Assign([ast.Name(name, ast.Store())], st.test))
                        st.test = ast.Name(name, ast.Load())
                        n += 1
                    new.append(st)
                setattr(holder, fld, new)
    return n


KINDS = {"condtemp": condtemp, "notwrap": notwrap, "reorder": reorder, "ternary": ternary, "rename": rename_locals, "logmsg": logmsg, "docpass": docpass, "noop": noop, "rettemp": rettemp, "ifflip": ifflip, "eqswap": eqswap}


def overlay_for(files, kind, root=None):
    out = {}
    ROOT = root or _root()
    for rel in files:
        p = os.path.join(ROOT, rel)
        if not rel.endswith(".py") or not os.path.exists(p):
            continue
        src = open(p, encoding="utf-8").read()
        tree = ast.parse(src)
        if KINDS[kind](tree):
            try:
                new = ast.unparse(ast.fix_missing_locations(tree)) + "\n"
                compile(new, rel, "exec")
            except Exception:
                continue
            out[rel] = new
    return out


def files_of(pid, props, root=None):
    ROOT = root or _root()
    fs = set(props[pid]["anchors"]["files"])
    # plus every file the rule module names explicitly
    txt = open(os.path.join(HERE, "sa", "rules", f"{pid}.py")).read()
    import re
    for m in re.findall(r'"(pkgcore(?:\.\w+)+)"', txt):
        rel = "src/" + m.replace(".", "/") + ".py"
        if os.path.exists(os.path.join(ROOT, rel)):
            fs.add(rel)
        rel2 = "src/" + m.replace(".", "/") + "/__init__.py"
        if os.path.exists(os.path.join(ROOT, rel2)):
            fs.add(rel2)
    for m in re.findall(r'"(src/pkgcore/[\w/]+\.py)"', txt):
        fs.add(m)
    return sorted(fs)


def load_props():
    return {json.loads(l)["id"]: json.loads(l) for l in open(os.path.join(HERE, "properties.jsonl"))}
