"""Obligations, findings, evidence, known findings, exit codes (DESIGN §2.8)."""
from __future__ import annotations

import hashlib
import json
import os
import sys
import time
import traceback

VERIF = os.path.dirname(os.path.dirname(os.path.dirname(os.path.abspath(__file__))))
KNOWN_FILE = os.path.join(VERIF, "known_findings.json")


class AnalysisError(Exception):
    """Anchor vanished / idiom not understood / instance floor not met.

    Never a violation: the check is broken or blind, exit 2."""


class Finding:
    def __init__(self, prop, rule, file, qual, tag, what, line=None, witness=None):
        self.prop, self.rule, self.file, self.qual = prop, rule, file, qual
        self.tag, self.what, self.line, self.witness = tag, what, line, witness

    @property
    def key(self):
        return f"{self.rule}|{self.file}|{self.qual}|{self.tag}"

    def as_dict(self):
        return {
            "property": self.prop,
            "rule": self.rule,
            "file": self.file,
            "construct": self.qual,
            "tag": self.tag,
            "key": self.key,
            "line": self.line,
            "what": self.what,
            "witness": self.witness,
        }


class Ctx:
    """Per-run context handed to a property's rule module."""

    def __init__(self, prop, tier, program, seed=0):
        self.prop = prop
        self.tier = tier
        self.program = program
        self.seed = seed
        self.obligations = []  # dicts
        self.findings = []  # Finding
        self.notes = []
        self.assumptions = []
        self.explanation = ""
        self.extra = {}
        self._rule_counts = {}
        self.t0 = time.time()

    # -- recording -----------------------------------------------------
    def ob(self, rule, where, what, node=None, file=None):
        """Record one rule instance that was evaluated.

        ``where`` is a FuncInfo/ClassInfo/ModuleInfo or a plain string."""
        f, q, line = self._loc(where, node, file)
        rid = f"{self.prop}.{rule}"
        self.obligations.append(
            {"rule": rid, "file": f, "construct": q, "line": line, "what": what}
        )
        self._rule_counts[rid] = self._rule_counts.get(rid, 0) + 1

    def fail(self, rule, where, tag, what, node=None, file=None, witness=None):
        f, q, line = self._loc(where, node, file)
        rid = f"{self.prop}.{rule}"
        fd = Finding(self.prop, rid, f, q, tag, what, line, witness)
        # de-duplicate on key
        if not any(x.key == fd.key for x in self.findings):
            self.findings.append(fd)

    def check(self, rule, where, cond, tag, what_ok, what_bad=None, node=None, file=None, witness=None):
        """Obligation + finding when ``cond`` is false."""
        self.ob(rule, where, what_ok, node=node, file=file)
        if not cond:
            self.fail(rule, where, tag, what_bad or ("NOT: " + what_ok), node=node, file=file, witness=witness)
        return bool(cond)

    def require(self, cond, msg):
        if not cond:
            raise AnalysisError(msg)
        return cond

    def floor(self, rule, n):
        rid = f"{self.prop}.{rule}"
        got = self._rule_counts.get(rid, 0)
        if got < n:
            raise AnalysisError(
                f"rule {rid} evaluated {got} instance(s), floor is {n}: the rule would pass vacuously"
            )

    def note(self, text):
        self.notes.append(text)

    def assume(self, text):
        if text not in self.assumptions:
            self.assumptions.append(text)

    def _loc(self, where, node, file):
        line = getattr(node, "lineno", None)
        if isinstance(where, str):
            return file or "", where, line
        f = getattr(where, "relpath", None) or file or ""
        q = getattr(where, "qual", None) or getattr(where, "name", "") or ""
        if line is None:
            line = getattr(where, "lineno", None)
        return f, q, line


def load_known():
    if not os.path.exists(KNOWN_FILE):
        return []
    with open(KNOWN_FILE) as fh:
        data = json.load(fh)
    return data.get("findings", [])


def finish(ctx: Ctx, error: str | None = None, quiet=False):
    """Write evidence, print KNOWN-FINDING / VIOLATION / ANALYSIS-ERROR lines, return exit code."""
    prop = ctx.prop
    known = [k for k in load_known() if k.get("property") == prop and k.get("status") == "known"]
    known_keys = {k["key"]: k for k in known}
    reported_known, violations = [], []
    for f in ctx.findings:
        if f.key in known_keys:
            reported_known.append(f)
        else:
            violations.append(f)
    evdir = os.environ.get("VERIF_EVIDENCE_DIR") or os.path.join(VERIF, "evidence")
    os.makedirs(os.path.join(evdir, "replay"), exist_ok=True)
    distinct = {(o["rule"], o["file"], o["construct"], o["what"]) for o in ctx.obligations}
    rules = sorted({o["rule"] for o in ctx.obligations})
    prog = ctx.program
    cov = {
        "explanation": ctx.explanation
        or "static analysis of structural clauses; see DESIGN.md section for this property",
        "evaluations": len(ctx.obligations),
        "distinct_nontrivial": len(distinct),
        "rule": "one evaluation = one rule instance (rule id, file, construct, clause) decided on the parsed source of /repo; "
        "distinct = distinct (rule, file, construct, clause) tuples; trivial instances (anchors merely located) are not counted",
        "obligations": len(ctx.obligations),
        "discharged": len(ctx.obligations) - len({(f.rule, f.file, f.qual) for f in ctx.findings}),
        "rules": rules,
        "rule_instance_counts": dict(sorted(ctx._rule_counts.items())),
        "samples": ctx.obligations[:60],
        "findings": [f.as_dict() for f in ctx.findings],
        "known_findings_reported": [f.key for f in reported_known],
        "units_parsed": getattr(prog, "n_modules", 0),
        "functions_indexed": getattr(prog, "n_functions", 0),
        "classes_indexed": getattr(prog, "n_classes", 0),
        "bash_files_lexed": getattr(prog, "n_bash", 0),
        "source_digest": getattr(prog, "digest", ""),
        "repo_root": getattr(prog, "root", ""),
        "notes": ctx.notes,
        "exhaustive": False,
    }
    cov.update(ctx.extra)
    if error:
        cov["analysis_error"] = error
    ev = {
        "property_id": prop,
        "tier": ctx.tier,
        "seed": ctx.seed,
        "level": "other",
        "coverage": cov,
        "assumptions": ctx.assumptions
        or ["snakeoil and the Python/bash runtimes are trusted base; only the named structural clauses are decided"],
        "wall_s": round(time.time() - ctx.t0, 3),
        "violations": len(violations),
    }
    with open(os.path.join(evdir, f"{prop}.json"), "w") as fh:
        json.dump(ev, fh, indent=1, sort_keys=False)
        fh.write("\n")
    out = sys.stdout
    if not quiet:
        print(
            f"[{prop}] tier={ctx.tier} rules={len(rules)} obligations={len(ctx.obligations)} "
            f"findings={len(ctx.findings)} known={len(reported_known)} wall={ev['wall_s']}s",
            file=out,
        )
    if error:
        print(f"ANALYSIS-ERROR property={prop} {error}", file=out)
    for f in reported_known:
        k = known_keys[f.key]
        print(f"KNOWN-FINDING: property={prop} {f.rule} {f.file}:{f.qual} — {k.get('what', f.what)}", file=out)
    # a listed known finding that no longer fires is only noted (the defect may have been repaired)
    fired = {f.key for f in ctx.findings}
    for k in known:
        if k["key"] not in fired and not quiet:
            print(f"note: known finding no longer fires: {k['key']}", file=out)
    for f in violations:
        dg = hashlib.sha1(f.key.encode()).hexdigest()[:10]
        rp = os.path.join(evdir, "replay", f"{prop}-{dg}.json")
        with open(rp, "w") as fh:
            json.dump(f.as_dict(), fh, indent=1)
            fh.write("\n")
        print(f"  {f.rule} {f.file}:{f.line} {f.qual}: {f.what}", file=out)
        if f.witness:
            print(f"    witness: {f.witness}", file=out)
        print(f"VIOLATION property={prop} replay={rp}", file=out)
    return 1 if violations else (2 if error else 0)


def run_guarded(ctx: Ctx, fn, quiet=False):
    try:
        fn(ctx)
    except AnalysisError as e:
        return finish(ctx, error=str(e), quiet=quiet)
    except Exception as e:  # internal error: never looks like a violation
        tb = traceback.format_exc().strip().splitlines()
        return finish(ctx, error=f"internal {type(e).__name__}: {e} @ {tb[-3].strip() if len(tb) > 2 else ''}", quiet=quiet)
    return finish(ctx, quiet=quiet)
