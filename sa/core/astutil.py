"""AST helpers shared by the rules.  Matching is on tree shape, never on source text."""
from __future__ import annotations

import ast

from .model import dotted

FUNC_TYPES = (ast.FunctionDef, ast.AsyncFunctionDef, ast.Lambda)
SCOPE_TYPES = (ast.FunctionDef, ast.AsyncFunctionDef, ast.ClassDef)


def walk(node, into_nested=False):
    """ast.walk that does not descend into nested def/class (lambdas and comprehensions are entered)."""
    todo = [node]
    first = True
    while todo:
        n = todo.pop()
        if not first and not into_nested and isinstance(n, SCOPE_TYPES):
            continue
        first = False
        yield n
        todo.extend(reversed(list(ast.iter_child_nodes(n))))


def walk_body(stmts, into_nested=False):
    for s in stmts:
        if not into_nested and isinstance(s, SCOPE_TYPES):
            continue
        yield from walk(s, into_nested)


def body_walk(fn_node, into_nested=False):
    """Walk the statements of a function body (not its decorators/args)."""
    return walk_body(fn_node.body, into_nested)


def calls(node, into_nested=False):
    for n in (walk(node, into_nested) if not isinstance(node, list) else walk_body(node, into_nested)):
        if isinstance(n, ast.Call):
            yield n


def call_name(call):
    """Dotted name of the callee (``os.rename``, ``self.rollback``, ``foo``), or None."""
    return dotted(call.func)


def call_attr(call):
    """Last attribute / name of the callee."""
    f = call.func
    if isinstance(f, ast.Attribute):
        return f.attr
    if isinstance(f, ast.Name):
        return f.id
    return None


def calls_named(node, *names, into_nested=False):
    """Calls whose dotted callee name or last attribute equals one of ``names``."""
    out = []
    for c in calls(node, into_nested):
        if call_name(c) in names or call_attr(c) in names:
            out.append(c)
    return out


def names_in(node):
    return {n.id for n in ast.walk(node) if isinstance(n, ast.Name)}


def attrs_of(node, base="self"):
    """Attribute names read/written on ``base`` anywhere below node: {attr}."""
    out = set()
    for n in ast.walk(node):
        if isinstance(n, ast.Attribute) and isinstance(n.value, ast.Name) and n.value.id == base:
            out.add(n.attr)
    return out


def self_attr(node, base="self"):
    """``self.x`` -> 'x' else None"""
    if isinstance(node, ast.Attribute) and isinstance(node.value, ast.Name) and node.value.id == base:
        return node.attr
    return None


def const(node, default=None):
    if isinstance(node, ast.Constant):
        return node.value
    return default


def is_const(node, value):
    return isinstance(node, ast.Constant) and node.value == value and type(node.value) is type(value)


def unparse(node):
    try:
        return ast.unparse(node)
    except Exception:
        return "<?>"


def stmt_of(node):
    """Enclosing statement of an expression node (uses the _parent links set by the loader)."""
    while node is not None and not isinstance(node, ast.stmt):
        node = getattr(node, "_parent", None)
    return node


def parents(node):
    node = getattr(node, "_parent", None)
    while node is not None:
        yield node
        node = getattr(node, "_parent", None)


def enclosing(node, types):
    for p in parents(node):
        if isinstance(p, types):
            return p
    return None


def assigned_names(target):
    """Names bound by an assignment target (tuples flattened)."""
    out = []
    for n in ast.walk(target):
        if isinstance(n, ast.Name) and isinstance(n.ctx, ast.Store):
            out.append(n.id)
    return out


def assignments(fn_node, name=None):
    """(target-node, value-node, stmt) for simple assignments in a function body.
    Tuple targets with tuple values are paired element-wise."""
    out = []
    for n in body_walk(fn_node):
        if isinstance(n, ast.Assign):
            for t in n.targets:
                out.extend(_pair(t, n.value, n))
        elif isinstance(n, ast.AnnAssign) and n.value is not None:
            out.extend(_pair(n.target, n.value, n))
        elif isinstance(n, ast.AugAssign):
            out.append((n.target, n, n))
        elif isinstance(n, ast.NamedExpr):
            out.append((n.target, n.value, stmt_of(n)))
    if name is not None:
        out = [x for x in out if isinstance(x[0], ast.Name) and x[0].id == name]
    return out


def _pair(t, v, st):
    if isinstance(t, (ast.Tuple, ast.List)) and isinstance(v, (ast.Tuple, ast.List)) and len(t.elts) == len(v.elts):
        out = []
        for a, b in zip(t.elts, v.elts):
            out.extend(_pair(a, b, st))
        return out
    return [(t, v, st)]


def str_constants(node):
    return [n.value for n in ast.walk(node) if isinstance(n, ast.Constant) and isinstance(n.value, str)]


def fstring_prefix(node):
    """Leading literal text of a str Constant / JoinedStr / "lit" + x / "lit" % x / "lit".format()."""
    if isinstance(node, ast.Constant) and isinstance(node.value, str):
        return node.value
    if isinstance(node, ast.JoinedStr):
        out = ""
        for v in node.values:
            if isinstance(v, ast.Constant) and isinstance(v.value, str):
                out += v.value
            else:
                break
        return out
    if isinstance(node, ast.BinOp) and isinstance(node.op, (ast.Add, ast.Mod)):
        return fstring_prefix(node.left)
    if isinstance(node, ast.Call) and isinstance(node.func, ast.Attribute) and node.func.attr == "format":
        p = fstring_prefix(node.func.value)
        if p is not None and "{" in p:
            p = p.split("{")[0]
        return p
    return None


def returns(fn_node):
    return [n for n in body_walk(fn_node) if isinstance(n, ast.Return)]


def raises(fn_node):
    return [n for n in body_walk(fn_node) if isinstance(n, ast.Raise)]


def raised_name(r):
    e = r.exc
    if e is None:
        return None
    if isinstance(e, ast.Call):
        return dotted(e.func)
    return dotted(e)


def compare_ops(node):
    """For an ast.Compare with one operator: (left, opclass, right)."""
    if isinstance(node, ast.Compare) and len(node.ops) == 1:
        return node.left, type(node.ops[0]), node.comparators[0]
    return None


def contains_node(outer, inner):
    return any(n is inner for n in ast.walk(outer))


def literal(node, env=None):
    """Evaluate literal structure without importing anything (DESIGN §2.3).  Raises ValueError."""
    env = env or {}
    if isinstance(node, ast.Constant):
        return node.value
    if isinstance(node, ast.Tuple):
        return tuple(literal(e, env) for e in node.elts)
    if isinstance(node, ast.List):
        return [literal(e, env) for e in node.elts]
    if isinstance(node, ast.Set):
        return {literal(e, env) for e in node.elts}
    if isinstance(node, ast.Dict):
        out = {}
        for k, v in zip(node.keys, node.values):
            if k is None:
                out.update(literal(v, env))
            else:
                out[literal(k, env)] = literal(v, env)
        return out
    if isinstance(node, ast.Name):
        if node.id in env:
            return env[node.id]
        raise ValueError(f"name {node.id} not constant")
    if isinstance(node, ast.UnaryOp) and isinstance(node.op, ast.USub):
        return -literal(node.operand, env)
    if isinstance(node, ast.UnaryOp) and isinstance(node.op, ast.Invert):
        return ~literal(node.operand, env)
    if isinstance(node, ast.UnaryOp) and isinstance(node.op, ast.Not):
        return not literal(node.operand, env)
    if isinstance(node, ast.BinOp):
        l, r = literal(node.left, env), literal(node.right, env)
        ops = {
            ast.Add: lambda a, b: a + b,
            ast.BitOr: lambda a, b: a | b,
            ast.BitAnd: lambda a, b: a & b,
            ast.Sub: lambda a, b: a - b,
            ast.Mult: lambda a, b: a * b,
            ast.Mod: lambda a, b: a % b,
            ast.BitXor: lambda a, b: a ^ b,
            ast.LShift: lambda a, b: a << b,
        }
        f = ops.get(type(node.op))
        if f is None:
            raise ValueError("binop")
        return f(l, r)
    if isinstance(node, ast.JoinedStr):
        out = ""
        for v in node.values:
            if isinstance(v, ast.Constant):
                out += str(v.value)
            elif isinstance(v, ast.FormattedValue) and v.format_spec is None and v.conversion == -1:
                out += str(literal(v.value, env))
            else:
                raise ValueError("fstring")
        return out
    if isinstance(node, ast.Call):
        fn = dotted(node.func)
        if fn in ("frozenset", "set", "tuple", "list", "sorted", "dict") and not node.keywords:
            args = [literal(a, env) for a in node.args]
            ctor = {"frozenset": frozenset, "set": set, "tuple": tuple, "list": list, "sorted": sorted, "dict": dict}[fn]
            return ctor(*args)
        if isinstance(node.func, ast.Attribute) and node.func.attr in ("split", "join", "union", "lower", "upper", "strip"):
            base = literal(node.func.value, env)
            args = [literal(a, env) for a in node.args]
            return getattr(base, node.func.attr)(*args)
        raise ValueError(f"call {fn}")
    if isinstance(node, ast.Starred):
        raise ValueError("starred")
    raise ValueError(type(node).__name__)


def try_literal(node, env=None, default=None):
    try:
        return literal(node, env)
    except (ValueError, TypeError, AttributeError, KeyError):
        return default


def ifexp_of(stmts, name):
    """The two-way definition of ``name`` in a statement list as an ast.IfExp, whichever way it is written:
    ``name = A if c else B`` or ``if c: name = A else: name = B`` (the canonical form turns the former into the latter)."""
    for st in stmts:
        if isinstance(st, ast.Assign) and len(st.targets) == 1 and isinstance(st.targets[0], ast.Name) and st.targets[0].id == name and isinstance(st.value, ast.IfExp):
            return st.value
        if isinstance(st, ast.If) and len(st.body) == 1 and len(st.orelse) == 1 and all(
                isinstance(x, ast.Assign) and len(x.targets) == 1 and isinstance(x.targets[0], ast.Name) and x.targets[0].id == name for x in (st.body[0], st.orelse[0])):
            e = ast.IfExp(st.test, st.body[0].value, st.orelse[0].value)
            ast.copy_location(e, st)
            return e
    return None
