"""Structural pattern matching with metavariables over Python ASTs (semgrep-like, tiny).

Why: a rule that asks `"if not vuln:\\n    return None" in unparse(fn)` fires on a behaviour-preserving rename
of the local `vuln`.  A pattern `if not $v: return None` states the same shape without spelling local names.

Pattern language (ordinary Python source, parsed with ast, plus):
  $name      a *name* metavariable: matches one ast.Name (any identifier); the same $name must match the same
             identifier everywhere it occurs under one environment (``env``), so several patterns can share bindings.
             Also matches the ``name`` of ``except E as name`` and simple parameter names.
  $$name     an *expression* metavariable: matches any expression; repeated occurrences must be structurally equal.
  $_         anonymous: any single expression (no binding).
  ...        in a statement list: any number of statements; in call arguments / list, tuple, set elements: any
             number of elements.
Statement lists: the pattern's statements must occur **in order** in the candidate body; other statements may sit
between them (so an added logging line does not break a match).  Call keywords are matched as a set (order-free);
unless the pattern's call contains ``...`` the positional arguments and keyword set must match exactly.
Everything else (attribute names, called names, constants, operators, non-metavariable identifiers such as ``self``
or module-level names) must be equal.

API:
  P = Pat("if not $v:\\n    return None")
  P.search(node, env=None)  -> list of Match(node, env) — every place under ``node`` where the pattern matches
  P.matches(node, env=None) -> Match or None — ``node`` itself (expression or statement) matches
  has(node, pattern, env=None) -> bool ;  find(node, pattern, env=None) -> list[Match] ;  one(...) -> Match|None
  Match.env maps metavariable name -> identifier (for $name) or ast node (for $$name).
Passing the ``env`` of an earlier match constrains later patterns to the same variables."""
from __future__ import annotations

import ast
import re

_MV = "_MV_"
_EV = "_EV_"
_ANY = "_ANYEXPR_"


class Match:
    def __init__(self, node, env):
        self.node, self.env = node, env

    def __getitem__(self, k):
        return self.env[k]

    def __repr__(self):
        show = {k: (v if isinstance(v, str) else ast.unparse(v)) for k, v in self.env.items()}
        return f"<Match line {getattr(self.node, 'lineno', '?')} {show}>"


def _prep(src):
    src = src.replace("$$", "\x00")
    src = re.sub(r"\$_\b", _ANY, src)
    src = re.sub(r"\$([A-Za-z]\w*)", lambda m: _MV + m.group(1), src)
    src = re.sub("\x00([A-Za-z]\\w*)", lambda m: _EV + m.group(1), src)
    return src


def _is_ellipsis_stmt(st):
    return isinstance(st, ast.Expr) and isinstance(st.value, ast.Constant) and st.value.value is Ellipsis


_NEG_OPS = {ast.NotEq: ast.Eq, ast.NotIn: ast.In, ast.IsNot: ast.Is}
_POS_OPS = {v: k for k, v in _NEG_OPS.items()}


def is_negative(test):
    return (isinstance(test, ast.UnaryOp) and isinstance(test.op, ast.Not)) or (isinstance(test, ast.Compare) and len(test.ops) == 1 and type(test.ops[0]) in _NEG_OPS)


def negation(test):
    """the logical negation of a test in the spelling the canonical form uses: ``not c`` <-> ``c``, ``a != b`` <-> ``a == b``,
    ``a not in b`` <-> ``a in b``, ``a is not b`` <-> ``a is b``"""
    if isinstance(test, ast.UnaryOp) and isinstance(test.op, ast.Not):
        return test.operand
    if isinstance(test, ast.Compare) and len(test.ops) == 1:
        k = type(test.ops[0])
        if k in _NEG_OPS or k in _POS_OPS:
            new = ast.Compare(test.left, [(_NEG_OPS.get(k) or _POS_OPS[k])()], test.comparators)
            return ast.copy_location(new, test)
    return ast.copy_location(ast.UnaryOp(ast.Not(), test), test)


def _is_ellipsis(e):
    return isinstance(e, ast.Constant) and e.value is Ellipsis


class Pat:
    def __init__(self, src):
        self.src = src
        import textwrap
        tree = ast.parse(textwrap.dedent(_prep(src)).strip() + "\n")
        # patterns are brought to the same canonical form as the analysed source (return temps inlined, if/else
        # orientation) so that either spelling of a pattern matches
        import os
        if not os.environ.get("VERIF_NOCANON") and not (len(tree.body) == 1 and isinstance(tree.body[0], ast.Expr)):
            from .canon import canonical
            wrapper = ast.Module(body=[ast.FunctionDef(name="_pat", args=ast.arguments(posonlyargs=[], args=[], kwonlyargs=[], kw_defaults=[], defaults=[]),
                                                       body=tree.body, decorator_list=[], type_params=[])], type_ignores=[])
            ast.fix_missing_locations(wrapper)
            try:
                tree = ast.Module(body=canonical(wrapper).body[0].body, type_ignores=[])
            except Exception:
                pass
        self.stmts = tree.body
        self.is_expr = len(self.stmts) == 1 and isinstance(self.stmts[0], ast.Expr) and not _is_ellipsis_stmt(self.stmts[0])
        self.expr = self.stmts[0].value if self.is_expr else None

    # ---- public -------------------------------------------------------------------------------------
    def search(self, node, env=None):
        out = []
        env = dict(env or {})
        nodes = node if isinstance(node, list) else [node]
        if self.is_expr:
            for root in nodes:
                for n in ast.walk(root):
                    if isinstance(n, ast.expr):
                        e = self._m(self.expr, n, dict(env))
                        if e is not None:
                            out.append(Match(n, e))
            # an expression pattern also matches an expression *statement*
            return out
        for root in nodes:
            for n in ast.walk(root):
                for fld in ("body", "orelse", "finalbody"):
                    body = getattr(n, fld, None)
                    if isinstance(body, list) and body and isinstance(body[0], ast.stmt):
                        out.extend(self._seq_all(self.stmts, body, env))
                if isinstance(n, ast.Try):
                    for h in n.handlers:
                        out.extend(self._seq_all(self.stmts, h.body, env))
        if isinstance(node, list) and node and isinstance(node[0], ast.stmt):
            out.extend(self._seq_all(self.stmts, node, env))
        # de-duplicate by anchor node
        seen, uniq = set(), []
        for m in out:
            k = (id(m.node), tuple(sorted((a, b if isinstance(b, str) else id(b)) for a, b in m.env.items())))
            if k not in seen:
                seen.add(k)
                uniq.append(m)
        return uniq

    def matches(self, node, env=None):
        env = dict(env or {})
        if self.is_expr and isinstance(node, ast.expr):
            e = self._m(self.expr, node, env)
        elif len(self.stmts) == 1 and isinstance(node, ast.stmt):
            e = self._m(self.stmts[0], node, env)
        else:
            e = None
        return Match(node, e) if e is not None else None

    # ---- statement sequences -------------------------------------------------------------------------
    def _seq_all(self, pats, body, env):
        """all matches of the pattern sequence as an in-order subsequence of body, anchored at each possible first statement"""
        out = []
        pats = [p for p in pats]
        while pats and _is_ellipsis_stmt(pats[0]):
            pats = pats[1:]
        if not pats:
            return out
        for order in self._orders(pats):
            for i, st in enumerate(body):
                e = self._m(order[0], st, dict(env))
                if e is None:
                    continue
                e2 = self._seq_rest(order[1:], body[i + 1:], e, _swapped=order is not pats)
                if e2 is not None and not any(m.node is st for m in out):
                    out.append(Match(st, e2))
        return out

    @staticmethod
    def _independent(a, b):
        """two plain assignments `x = <no call, no attribute / item access>` that do not read each other's target: their order
        carries no meaning, so a pattern listing them one way also describes the other way"""
        def plain(st):
            return isinstance(st, ast.Assign) and len(st.targets) == 1 and isinstance(st.targets[0], ast.Name) and not any(
                isinstance(x, (ast.Call, ast.Await, ast.Yield, ast.YieldFrom, ast.NamedExpr, ast.Subscript, ast.Attribute)) for x in ast.walk(st.value))
        if not (plain(a) and plain(b)):
            return False
        ta, tb = a.targets[0].id, b.targets[0].id
        ra = {x.id for x in ast.walk(a.value) if isinstance(x, ast.Name)}
        rb = {x.id for x in ast.walk(b.value) if isinstance(x, ast.Name)}
        return ta != tb and ta not in rb and tb not in ra

    def _orders(self, pats):
        yield pats
        # `$t = E` followed by `if $t: ...`: the analysed source may hold the inlined form `if E: ...` (canonical when t is
        # used nowhere else)
        if len(pats) >= 2 and isinstance(pats[0], ast.Assign) and len(pats[0].targets) == 1 and isinstance(pats[0].targets[0], ast.Name) \
                and isinstance(pats[1], ast.If) and isinstance(pats[1].test, ast.Name) and pats[1].test.id == pats[0].targets[0].id:
            tname = pats[0].targets[0].id
            rest_uses = any(isinstance(n, ast.Name) and n.id == tname for st in ([*pats[1].body, *pats[1].orelse] + list(pats[2:])) for n in ast.walk(st))
            if not rest_uses:
                merged = ast.If(test=pats[0].value, body=pats[1].body, orelse=pats[1].orelse)
                yield [ast.copy_location(merged, pats[1])] + list(pats[2:])
        if len(pats) >= 2 and self._independent(pats[0], pats[1]):
            yield [pats[1], pats[0]] + list(pats[2:])

    def _seq_rest(self, pats, body, env, _swapped=False):
        if not pats:
            return env
        if _is_ellipsis_stmt(pats[0]):
            return self._seq_rest(pats[1:], body, env)
        for order in (self._orders(pats) if not _swapped else [pats]):
            for i, st in enumerate(body):
                e = self._m(order[0], st, dict(env))
                if e is not None:
                    r = self._seq_rest(order[1:], body[i + 1:], e, _swapped=order is not pats)
                    if r is not None:
                        return r
        return None

    def _body(self, pbody, body, env):
        """pattern body must occur in order inside body (empty pattern body / `...` / `pass` matches anything)"""
        ps = [p for p in pbody if not _is_ellipsis_stmt(p)]
        if len(ps) == 1 and isinstance(ps[0], ast.Pass) and not any(isinstance(b, ast.Pass) for b in body):
            return env
        if not ps:
            return env
        return self._seq_rest(ps, body, env)

    # ---- node matching -------------------------------------------------------------------------------------
    def _name(self, pid, actual, env):
        """pid: identifier in the pattern, actual: identifier in the code"""
        if pid.startswith(_MV):
            k = pid[len(_MV):]
            if k in env:
                return env if env[k] == actual else None
            env[k] = actual
            return env
        return env if pid == actual else None

    def _m(self, p, n, env):
        if env is None:
            return None
        # expression metavariables
        if isinstance(p, ast.Name):
            if p.id == _ANY:
                return env if isinstance(n, ast.expr) else None
            if p.id.startswith(_EV):
                k = "$" + p.id[len(_EV):]
                if not isinstance(n, ast.expr):
                    return None
                if k in env:
                    return env if ast.dump(env[k]) == ast.dump(n) else None
                env[k] = n
                return env
            if not isinstance(n, ast.Name):
                return None
            return self._name(p.id, n.id, env)
        if type(p) is not type(n):
            return None
        if isinstance(p, ast.Compare) and len(p.ops) == 1 and isinstance(p.ops[0], (ast.Eq, ast.NotEq)) and len(n.ops) == 1 and type(n.ops[0]) is type(p.ops[0]):
            # == and != are symmetric: accept either operand order (the analysed tree is in canonical order anyway)
            e1 = self._m(p.left, n.left, dict(env))
            if e1 is not None:
                e1 = self._m(p.comparators[0], n.comparators[0], e1)
            if e1 is not None:
                env.update(e1)
                return env
            e2 = self._m(p.left, n.comparators[0], dict(env))
            if e2 is not None:
                e2 = self._m(p.comparators[0], n.left, e2)
            if e2 is not None:
                env.update(e2)
                return env
            return None
        if isinstance(p, ast.If) and p.orelse and n.orelse:
            # `if c: A else: B` also matches `if not c: B else: A` (canonical form has no leading `not` when there is an else)
            e1 = self._if(p, n, dict(env))
            if e1 is not None:
                env.update(e1)
                return env
            wild = isinstance(p.test, ast.Name) and (p.test.id == _ANY or p.test.id.startswith(_EV))
            flipped = ast.If(test=(p.test if wild else negation(p.test)), body=p.orelse, orelse=p.body)
            e2 = self._if(flipped, n, dict(env))
            if e2 is not None:
                env.update(e2)
                return env
            return None
        if isinstance(p, ast.If) and not p.orelse and n.orelse and isinstance(p.test, ast.Name) and (p.test.id == _ANY or p.test.id.startswith(_EV)):
            # `if $_: A` (any test, no else in the pattern): A may be either branch of an if/else — which one is "the body"
            # depends only on how the test is spelled
            for branch in (n.body, n.orelse):
                e1 = self._m(p.test, n.test, dict(env))
                if e1 is not None:
                    e1 = self._body(p.body, branch, e1)
                if e1 is not None:
                    env.update(e1)
                    return env
            return None
        if isinstance(p, ast.If) and not p.orelse and n.orelse and is_negative(p.test):
            # `if not c: A` / `if a is not b: A` (pattern without else) also describes the else branch of `if c: ... else: A`
            e1 = self._m(p.test, n.test, dict(env))
            if e1 is not None:
                e1 = self._body(p.body, n.body, e1)
            if e1 is not None:
                env.update(e1)
                return env
            e2 = self._m(negation(p.test), n.test, dict(env))
            if e2 is not None:
                e2 = self._body(p.body, n.orelse, e2)
            if e2 is not None:
                env.update(e2)
                return env
            return None
        if isinstance(p, ast.Constant):
            return env if (type(p.value) is type(n.value) and p.value == n.value) else None
        if isinstance(p, ast.Call):
            env = self._m(p.func, n.func, env)
            if env is None:
                return None
            open_ = any(_is_ellipsis(a) for a in p.args)
            pa = [a for a in p.args if not _is_ellipsis(a)]
            if open_:
                env = self._subseq(pa, n.args, env)
            else:
                if len(pa) != len(n.args):
                    return None
                for a, b in zip(pa, n.args):
                    env = self._m(a, b, env)
                    if env is None:
                        return None
            if env is None:
                return None
            nk = {k.arg: k.value for k in n.keywords}
            for k in p.keywords:
                if k.arg not in nk:
                    return None
                env = self._m(k.value, nk[k.arg], env)
                if env is None:
                    return None
            if not open_ and len(p.keywords) != len(n.keywords):
                return None
            return env
        if isinstance(p, (ast.List, ast.Tuple, ast.Set)):
            if any(_is_ellipsis(a) for a in p.elts):
                return self._subseq([a for a in p.elts if not _is_ellipsis(a)], n.elts, env)
            if len(p.elts) != len(n.elts):
                return None
            for a, b in zip(p.elts, n.elts):
                env = self._m(a, b, env)
                if env is None:
                    return None
            return env
        if isinstance(p, ast.ExceptHandler):
            if (p.type is None) != (n.type is None):
                return None
            if p.type is not None:
                env = self._m(p.type, n.type, env)
                if env is None:
                    return None
            if p.name is not None:
                if n.name is None:
                    return None
                env = self._name(p.name, n.name, env)
                if env is None:
                    return None
            return self._body(p.body, n.body, env)
        if isinstance(p, ast.arg):
            return self._name(p.arg, n.arg, env)
        for fld, pv in ast.iter_fields(p):
            if fld in ("lineno", "col_offset", "end_lineno", "end_col_offset", "ctx", "type_comment", "type_ignores", "kind"):
                continue
            nv = getattr(n, fld, None)
            if fld in ("body", "orelse", "finalbody") and isinstance(pv, list) and (not pv or isinstance(pv[0], ast.stmt)):
                if fld == "orelse" and not pv:
                    continue  # pattern without else matches with or without one
                if not isinstance(nv, list):
                    return None
                env = self._body(pv, nv, env)
            elif isinstance(pv, list):
                if not isinstance(nv, list):
                    return None
                if fld == "handlers":
                    env = self._subseq(pv, nv, env)
                elif fld == "decorator_list" and not pv:
                    continue
                else:
                    if len(pv) != len(nv):
                        return None
                    for a, b in zip(pv, nv):
                        if isinstance(a, ast.AST):
                            env = self._m(a, b, env)
                        elif a != b:
                            return None
                        if env is None:
                            return None
            elif isinstance(pv, ast.AST):
                if not isinstance(nv, ast.AST):
                    return None
                env = self._m(pv, nv, env)
            else:
                if isinstance(pv, str) and fld in ("name", "id", "arg", "attr") and pv.startswith(_MV):
                    if not isinstance(nv, str):
                        return None
                    env = self._name(pv, nv, env)
                elif fld == "returns" and pv is None:
                    continue
                elif pv != nv:
                    return None
            if env is None:
                return None
        return env

    def _if(self, p, n, env):
        env = self._m(p.test, n.test, env)
        if env is None:
            return None
        env = self._body(p.body, n.body, env)
        if env is None:
            return None
        return self._body(p.orelse, n.orelse, env)

    def _subseq(self, ps, ns, env):
        """ps occur in order within ns"""
        if not ps:
            return env
        for i, b in enumerate(ns):
            e = self._m(ps[0], b, dict(env))
            if e is not None:
                r = self._subseq(ps[1:], ns[i + 1:], e)
                if r is not None:
                    return r
        return None


_CACHE = {}


def pat(src):
    p = _CACHE.get(src)
    if p is None:
        p = _CACHE[src] = Pat(src)
    return p


def find(node, pattern, env=None):
    return pat(pattern).search(node, env)


def has(node, pattern, env=None):
    return bool(pat(pattern).search(node, env))


def one(node, pattern, env=None):
    ms = pat(pattern).search(node, env)
    return ms[0] if ms else None


def count(node, pattern, env=None):
    return len(pat(pattern).search(node, env))


def arms(if_node, cond, env=None):
    """(statements run when ``cond`` holds, statements run when it does not, env) for an ``if`` whose test is ``cond`` or
    ``not cond`` — whichever way round the author (or the canonical form) wrote it; None when the test is neither."""
    if not isinstance(if_node, ast.If):
        return None
    m = pat(cond).matches(if_node.test, env)
    if m is not None:
        return if_node.body, if_node.orelse, m.env
    t = if_node.test
    m = pat(cond).matches(negation(t), env)
    if m is not None:
        return if_node.orelse, if_node.body, m.env
    return None


def guarded(stmts, cond, env=None):
    """[(if node, statements run when ``cond`` holds, statements run otherwise, env)] for every ``if`` (elif included) below
    ``stmts`` that tests ``cond`` in either polarity and either branch order — the form-independent way to ask "what happens
    when cond is true"."""
    from . import astutil as A
    out = []
    for n in A.walk_body(stmts if isinstance(stmts, list) else [stmts]):
        if isinstance(n, ast.If):
            r = arms(n, cond, env)
            if r is not None:
                out.append((n, r[0], r[1], r[2]))
    return out


def path_conditions(node, stop=None):
    """The tests under which ``node`` runs, as texts in one spelling: for every enclosing ``if`` (up to ``stop``) the test
    itself when the node sits in the body, its negation (``a not in b`` for ``a in b`` ...) when it sits in the else branch.
    Form-independent: `if c: X else: Y` and `if not c: Y else: X` give the same answer for X and for Y."""
    from . import astutil as A
    out = []
    child = node
    for p in A.parents(node):
        if p is stop:
            break
        if isinstance(p, ast.If):
            in_body = any(s is child or A.contains_node(s, child) for s in p.body)
            in_else = any(s is child or A.contains_node(s, child) for s in p.orelse)
            if in_body:
                out.append(ast.unparse(p.test))
            elif in_else:
                out.append(ast.unparse(negation(p.test)))
        child = p
    return out
