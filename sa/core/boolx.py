"""Tiny propositional view of ``if`` tests over opaque atoms (decision tables, DESIGN §2.7).

An atom is a maximal non-boolean sub-expression, keyed by its normalised text.  A few
normalisations make syntactic variants of the same predicate share one atom:
``x != c`` = not ``x == c``; ``x is not c`` = not ``x is c``; ``x not in y`` = not ``x in y``;
``not e``; for names known to be non-negative counters ``i > 0`` / ``i`` = not ``i == 0``."""
from __future__ import annotations

import ast
import itertools

from .astutil import unparse


def _atom(node, counters=()):
    """-> (key, polarity)"""
    if isinstance(node, ast.Compare) and len(node.ops) == 1:
        l, op, r = node.left, node.ops[0], node.comparators[0]
        lt, rt = unparse(l), unparse(r)
        if isinstance(op, ast.Eq):
            return (f"{lt} == {rt}", True)
        if isinstance(op, ast.NotEq):
            return (f"{lt} == {rt}", False)
        if isinstance(op, ast.Is):
            return (f"{lt} is {rt}", True)
        if isinstance(op, ast.IsNot):
            return (f"{lt} is {rt}", False)
        if isinstance(op, ast.In):
            return (f"{lt} in {rt}", True)
        if isinstance(op, ast.NotIn):
            return (f"{lt} in {rt}", False)
        if isinstance(l, ast.Name) and l.id in counters and isinstance(r, ast.Constant) and r.value == 0:
            if isinstance(op, ast.Gt):
                return (f"{lt} == 0", False)
            if isinstance(op, (ast.LtE,)):
                return (f"{lt} == 0", True)
        if isinstance(l, ast.Name) and l.id in counters and isinstance(r, ast.Constant) and r.value == 1:
            if isinstance(op, ast.GtE):
                return (f"{lt} == 0", False)
            if isinstance(op, ast.Lt):
                return (f"{lt} == 0", True)
    if isinstance(node, ast.Name) and node.id in counters:
        return (f"{node.id} == 0", False)
    return (unparse(node), True)


def atoms(test, counters=()):
    out = []

    def rec(n):
        if isinstance(n, ast.BoolOp):
            for v in n.values:
                rec(v)
        elif isinstance(n, ast.UnaryOp) and isinstance(n.op, ast.Not):
            rec(n.operand)
        else:
            k, _ = _atom(n, counters)
            if k not in out:
                out.append(k)

    rec(test)
    return out


def evaluate(test, env, counters=()):
    """Evaluate ``test`` under env: atom-key -> bool."""
    if isinstance(test, ast.BoolOp):
        vals = [evaluate(v, env, counters) for v in test.values]
        return all(vals) if isinstance(test.op, ast.And) else any(vals)
    if isinstance(test, ast.UnaryOp) and isinstance(test.op, ast.Not):
        return not evaluate(test.operand, env, counters)
    k, pol = _atom(test, counters)
    v = env[k]
    return v if pol else (not v)


def assignments(keys, fixed=None):
    fixed = fixed or {}
    free = [k for k in keys if k not in fixed]
    for combo in itertools.product([False, True], repeat=len(free)):
        env = dict(fixed)
        env.update(zip(free, combo))
        yield env


def forced_outcome(test, fixed, counters=()):
    """If ``test`` has the same value under every assignment extending ``fixed`` return it, else None."""
    ks = atoms(test, counters)
    vals = {evaluate(test, env, counters) for env in assignments(ks, fixed)}
    if len(vals) == 1:
        return vals.pop()
    return None
