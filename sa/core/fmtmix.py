"""Data interpolated into a %-format template.

``warn(f"... %s: {path}", kind)`` builds the *template* from data: the receiver later computes ``template % args``, so a
``%`` inside the interpolated value (a file called ``api%20ref.html``) is read as a directive and formatting raises.
When the caller swallows exceptions (a trigger with suppress_exceptions) the whole action silently does not happen.
Rule: a call that passes further positional arguments after an f-string whose literal part contains a %-directive."""
from __future__ import annotations

import ast
import re

_DIRECTIVE = re.compile(r"%(?:\([^)]*\))?[-#0 +]*\d*(?:\.\d+)?[sdrifxXeEgGc]")


def findings(fn_node):
    out = []
    for n in ast.walk(fn_node):
        if not (isinstance(n, ast.Call) and len(n.args) >= 2 and isinstance(n.args[0], ast.JoinedStr)):
            continue
        js = n.args[0]
        lit = "".join(v.value for v in js.values if isinstance(v, ast.Constant) and isinstance(v.value, str))
        if _DIRECTIVE.search(lit) and any(isinstance(v, ast.FormattedValue) for v in js.values):
            out.append((n, [ast.unparse(v.value) for v in js.values if isinstance(v, ast.FormattedValue)]))
    for n in ast.walk(fn_node):
        # f"... %s {data}" % args : the same mistake with the % operator applied in place
        if isinstance(n, ast.BinOp) and isinstance(n.op, ast.Mod) and isinstance(n.left, ast.JoinedStr):
            js = n.left
            lit = "".join(v.value for v in js.values if isinstance(v, ast.Constant) and isinstance(v.value, str))
            if _DIRECTIVE.search(lit) and any(isinstance(v, ast.FormattedValue) for v in js.values):
                out.append((n, [ast.unparse(v.value) for v in js.values if isinstance(v, ast.FormattedValue)]))
    return out
