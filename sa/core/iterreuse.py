"""Single-pass iterables consumed twice.

A generator expression / map / filter / zip / iter(...) / a call of a generator function yields its elements once.  If
the same object is iterated (or handed to something that iterates it) at two points on one control-flow path, the
second consumer sees nothing.  The classic shape: build the offenders lazily, loop over them to warn, then pass them on
to the code that fixes them — with an observer present nothing is fixed.  Decided on the statement CFG with reaching
definitions: two consuming uses of the *same definition* on one path, no re-definition in between."""
from __future__ import annotations

import ast

from . import astutil as A
from .cfg import cfg_of
from .effects import _stmt_defs, _header_exprs
from .model import FuncInfo

# explicit iter(...) / islice / reversed are deliberate shared cursors (i = iter(x); next(i); for y in i) and not listed
SINGLE_PASS_CALLS = {"map", "filter", "zip", "chain", "ifilter", "imap", "izip", "filterfalse", "zip_longest",
                     "iflatten_instance", "iflatten_func", "enumerate", "starmap", "takewhile", "dropwhile", "from_iterable"}
NON_CONSUMING_PARENTS = (ast.Compare,)  # `x is None`


def _is_single_pass(prog, mod, v):
    if isinstance(v, ast.GeneratorExp):
        return "a generator expression"
    if isinstance(v, ast.Call):
        f = v.func
        nm = f.id if isinstance(f, ast.Name) else (f.attr if isinstance(f, ast.Attribute) else None)
        if nm in SINGLE_PASS_CALLS:
            return f"{nm}(...)"
        if isinstance(f, ast.Name) and prog is not None:
            r = prog.resolve_name(mod, f.id)
            if isinstance(r, FuncInfo) and any(isinstance(n, (ast.Yield, ast.YieldFrom)) for n in A.body_walk(r.node)):
                return f"the generator function {f.id}()"
        if isinstance(f, ast.Name):
            # a nested generator function (also the enclosing one calling itself): looked up lexically
            scope = getattr(v, "_parent", None)
            while scope is not None:
                if isinstance(scope, (ast.FunctionDef, ast.AsyncFunctionDef)):
                    cand = [scope] if scope.name == f.id else []
                    cand += [c for c in scope.body if isinstance(c, (ast.FunctionDef, ast.AsyncFunctionDef)) and c.name == f.id]
                    for c in cand:
                        if any(isinstance(n, (ast.Yield, ast.YieldFrom)) for n in A.body_walk(c)):
                            return f"the nested generator function {f.id}()"
                    if cand:
                        break
                scope = getattr(scope, "_parent", None)
    return None


def _within(node, root):
    while node is not None:
        if node is root:
            return True
        node = getattr(node, "_parent", None)
    return False


def findings(prog, fi: FuncInfo):
    """[(name, def stmt, first use node, second use node, what)]"""
    fn = fi.node
    g = cfg_of(fn)
    out = []
    # definitions of interest
    cands = []
    for n in g.nodes:
        if n.ast is None:
            continue
        for d in _stmt_defs(n.ast):
            if d.kind == "assign" and d.value is not None:
                what = _is_single_pass(prog, fi.module, d.value)
                if what:
                    cands.append((d.name, n, what))
    # a parameter declared `Iterable[...]` / `Iterator[...]` / `Generator[...]`: the signature itself says callers may hand in a
    # one-shot object; treated like a definition at function entry
    a_ = fn.args
    for arg in a_.posonlyargs + a_.args + a_.kwonlyargs:
        ann = ast.unparse(arg.annotation) if arg.annotation is not None else ""
        head = ann.replace("typing.", "").replace("collections.abc.", "").replace("abc.", "").split("[")[0].split("|")[0].strip()
        if head in ("Iterable", "Iterator", "Generator"):
            cands.append((arg.arg, g.entry, f"a parameter declared `{ann}` (may be a one-shot iterator)"))
    # inner `for` clause of a comprehension: evaluated afresh for every item of the outer clause, so a single-pass
    # iterable there is exhausted after the first outer item — also when it is a deliberate iter(...) cursor
    cursor_defs = {}
    for n in g.nodes:
        if n.ast is None:
            continue
        for d in _stmt_defs(n.ast):
            if d.kind == "assign" and isinstance(d.value, ast.Call) and isinstance(d.value.func, ast.Name) and d.value.func.id == "iter" and len(d.value.args) == 1:
                cursor_defs.setdefault(d.name, []).append(n)
    single_names = {nm for nm, _n, _w in cands} | set(cursor_defs)
    all_defs = {}
    for n in g.nodes:
        if n.ast is not None:
            for d in _stmt_defs(n.ast):
                all_defs.setdefault(d.name, []).append(d)
    for n in g.nodes:
        if n.ast is None:
            continue
        for h in _header_exprs(n.ast):
            for comp in ast.walk(h):
                if isinstance(comp, (ast.GeneratorExp, ast.ListComp, ast.SetComp, ast.DictComp)) and len(comp.generators) > 1:
                    for gen in comp.generators[1:]:
                        it = gen.iter
                        if isinstance(it, ast.Name) and it.id in single_names:
                            ds = all_defs.get(it.id, [])
                            # every definition of the name must be single-pass (a list on one branch makes it fine there)
                            if ds and all(d.kind == "assign" and d.value is not None and (_is_single_pass(prog, fi.module, d.value) or (
                                    isinstance(d.value, ast.Call) and isinstance(d.value.func, ast.Name) and d.value.func.id == "iter")) for d in ds):
                                out.append((it.id, ds[0].stmt, it, it, "a single-pass iterator used as the INNER clause of a comprehension"))
    if not cands:
        return out
    defs_by_name = {}
    uses = {}
    for n in g.nodes:
        if n.ast is None:
            continue
        for d in _stmt_defs(n.ast):
            defs_by_name.setdefault(d.name, set()).add(n.id)
        for h in _header_exprs(n.ast):
            for x in ast.walk(h):
                if isinstance(x, ast.Name) and isinstance(x.ctx, ast.Load):
                    par = getattr(x, "_parent", None)
                    if isinstance(par, ast.Compare) and all(isinstance(o, (ast.Is, ast.IsNot)) for o in par.ops):
                        continue
                    if isinstance(par, ast.Call) and isinstance(par.func, ast.Name) and par.func.id in ("isinstance", "id", "type"):
                        continue
                    if isinstance(par, ast.Attribute) and par.value is x:
                        continue  # x.close() / x.send(): a method of the iterator, not a pass over it
                    if isinstance(par, ast.FormattedValue) or (isinstance(par, ast.Call) and isinstance(par.func, ast.Name) and par.func.id in ("repr", "str", "bool", "len")):
                        continue  # shown in a message / truth-tested: not iterated
                    uses.setdefault((x.id, n.id), []).append(x)
    for name, dn, what in cands:
        kills = defs_by_name.get(name, set())
        # forward walk from the definition; state = number of consuming uses seen so far (0 or 1)
        seen = set()
        work = [(s, 0, None, dn) for s, _ in dn.succ]
        # a use in the defining statement itself (x = chain(x, ...)) reads the previous definition, not this one
        while work:
            n, k, first, pred = work.pop()
            back = isinstance(n.ast, (ast.For, ast.AsyncFor, ast.While)) and pred is not None and pred.ast is not None and pred is not n and _within(pred.ast, n.ast)
            if (n.id, k, back) in seen:
                continue
            seen.add((n.id, k, back))
            us = uses.get((name, n.id), [])
            if back and isinstance(n.ast, (ast.For, ast.AsyncFor)):
                us = []  # the iterable of a for statement is evaluated on entry, not on every turn
            hit = None
            for u in us:
                if k == 0:
                    k, first = 1, u
                    # several loads in one statement: `f(x, x)` — also a double use
                    continue
                hit = u
                break
            if hit is not None:
                out.append((name, dn.ast if dn.ast is not None else fn, first, hit, what))
                break
            if n.id in kills:
                continue  # re-defined (also: the defining statement itself, reached again round an outer loop)
            # iterating in a loop header each time round: the loop header re-evaluates `for a in x` only once per
            # entry, but a use inside the loop body is repeated: going round the back edge with k==1 finds it again
            for s, _ in n.succ:
                work.append((s, k, first, n))
    return out
