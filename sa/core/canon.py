"""Canonical form of the parsed source, applied before any rule looks at it.

Three rewrites that never change behaviour are undone, so that a rule sees one spelling whichever the author chose:
  * ``if not c: A else: B``            ->  ``if c: B else: A``        (only when there is an else branch)
  * ``K == x`` / ``b.y == a.x``        ->  operands of ``==`` / ``!=`` in a fixed order: constants last, ``self...`` first,
                                           otherwise by text
  * ``t = E; return t`` (adjacent; t not read by a finally block) -> ``return E``
  * ``not (a in b)`` / ``not (a is b)`` / ``not (a == b)``  ->  ``a not in b`` / ``a is not b`` / ``a != b``
  * ``x = A if c else B`` (whole statement, plain name target)  ->  ``if c: x = A else: x = B``
  * ``t = E; if t: ...`` (adjacent, t used nowhere else)  ->  ``if E: ...``
Line numbers are kept (copy_location), so reports still point at the author's lines."""
from __future__ import annotations

import ast


def _key(e):
    if isinstance(e, ast.Constant):
        return (2, repr(e.value))
    txt = ast.unparse(e)
    return (0 if txt.split(".")[0].split("[")[0] in ("self", "cls") else 1, txt)


_SIMPLE = (ast.Name, ast.Attribute, ast.Constant, ast.Subscript)


def _pure(e):
    return all(isinstance(n, (ast.Name, ast.Attribute, ast.Constant, ast.Subscript, ast.Load, ast.Slice, ast.UnaryOp, ast.USub, ast.Tuple)) for n in ast.walk(e))


class _Canon(ast.NodeTransformer):
    _NEGATIVE = {ast.NotEq: ast.Eq, ast.NotIn: ast.In, ast.IsNot: ast.Is}

    def _positive(self, test):
        """the un-negated form of a test that is a negation (`not c`, `a != b`, `a not in b`, `a is not b`), else None"""
        if isinstance(test, ast.UnaryOp) and isinstance(test.op, ast.Not):
            return test.operand
        if isinstance(test, ast.Compare) and len(test.ops) == 1 and type(test.ops[0]) in self._NEGATIVE:
            new = ast.Compare(test.left, [self._NEGATIVE[type(test.ops[0])]()], test.comparators)
            ast.copy_location(new, test)
            return new
        return None

    def visit_If(self, node):
        self.generic_visit(node)
        if node.orelse:
            pos = self._positive(node.test)
            if pos is not None:
                # also when the else branch is a lone `if` (printed as elif): `if not c: A elif d: B` == `if c: (if d: B) else: A`
                node.test = pos
                node.body, node.orelse = node.orelse, node.body
        return node

    def visit_IfExp(self, node):
        self.generic_visit(node)
        pos = self._positive(node.test)
        if pos is not None:
            node.test = pos
            node.body, node.orelse = node.orelse, node.body
        return node

    _COMPLEMENT = {ast.In: ast.NotIn, ast.NotIn: ast.In, ast.Is: ast.IsNot, ast.IsNot: ast.Is, ast.Eq: ast.NotEq, ast.NotEq: ast.Eq}

    def visit_UnaryOp(self, node):
        """``not (a in b)`` -> ``a not in b``; likewise ``is`` / ``==`` (single-operator comparisons only: for these the
        negation is exactly the complementary operator; ordering comparisons are left alone)"""
        self.generic_visit(node)
        if isinstance(node.op, ast.Not) and isinstance(node.operand, ast.Compare) and len(node.operand.ops) == 1 and type(node.operand.ops[0]) in self._COMPLEMENT:
            c = node.operand
            new = ast.Compare(c.left, [self._COMPLEMENT[type(c.ops[0])]()], c.comparators)
            ast.copy_location(new, node)
            return self.visit_Compare(new) if isinstance(new.ops[0], (ast.Eq, ast.NotEq)) else new
        return node

    def _split_ternary(self, body):
        """``x = A if c else B`` as a whole statement -> ``if c: x = A else: x = B`` (the statement form is the canonical one)"""
        out = []
        for st in body:
            if isinstance(st, ast.Assign) and len(st.targets) == 1 and isinstance(st.targets[0], ast.Name) and isinstance(st.value, ast.IfExp):
                v = st.value
                a = ast.Assign([ast.Name(st.targets[0].id, ast.Store())], v.body)
                b = ast.Assign([ast.Name(st.targets[0].id, ast.Store())], v.orelse)
                new = ast.If(v.test, self._split_ternary([a]), self._split_ternary([b]))
                new._from_ternary = True  # rules that count the author's own if statements can tell
                for x in (a, b, new):
                    ast.copy_location(x, st)
                ast.copy_location(a.targets[0], st)
                ast.copy_location(b.targets[0], st)
                out.append(new)
            else:
                out.append(st)
        return out

    def visit_Compare(self, node):
        self.generic_visit(node)
        if len(node.ops) == 1 and isinstance(node.ops[0], (ast.Eq, ast.NotEq)):
            a, b = node.left, node.comparators[0]
            if isinstance(a, _SIMPLE) and isinstance(b, _SIMPLE) and _pure(a) and _pure(b) and _key(b) < _key(a):
                node.left, node.comparators[0] = b, a
        return node

    def _merge_returns(self, body):
        out = []
        i = 0
        body = [st for j, st in enumerate(body) if not (isinstance(st, ast.Expr) and isinstance(st.value, ast.Constant) and st.value.value is not Ellipsis and not (j == 0 and isinstance(st.value.value, str)))] or body
        while i < len(body):
            st = body[i]
            nxt = body[i + 1] if i + 1 < len(body) else None
            if isinstance(st, ast.Assign) and len(st.targets) == 1 and isinstance(st.targets[0], ast.Name) and isinstance(nxt, ast.Return) \
                    and isinstance(nxt.value, ast.Name) and nxt.value.id == st.targets[0].id and st.targets[0].id not in self._in_finally:
                r = ast.Return(st.value)
                ast.copy_location(r, st)
                r.end_lineno = getattr(nxt, "end_lineno", None)
                out.append(r)
                i += 2
                continue
            out.append(st)
            i += 1
        return out

    def _inline_cond_temps(self, body):
        """``t = E; if t: ...`` (adjacent, ``t`` used nowhere else in the function) -> ``if E: ...``: an explaining variable for a
        condition is the same decision"""
        out = []
        i = 0
        if getattr(self, "_in_pattern", False):
            return body  # a pattern spells what it means; the matcher accepts the inlined form of `t = E; if t:` on its side
        while i < len(body):
            st = body[i]
            nxt = body[i + 1] if i + 1 < len(body) else None
            if isinstance(st, ast.Assign) and len(st.targets) == 1 and isinstance(st.targets[0], ast.Name) and isinstance(nxt, ast.If) \
                    and isinstance(nxt.test, ast.Name) and nxt.test.id == st.targets[0].id and self._uses.get(st.targets[0].id, 0) == 2:
                nxt.test = st.value
                if nxt.orelse:
                    pos = self._positive(nxt.test)
                    if pos is not None:
                        nxt.test = pos
                        nxt.body, nxt.orelse = nxt.orelse, nxt.body
                out.append(nxt)
                i += 2
                continue
            out.append(st)
            i += 1
        return out

    def visit_FunctionDef(self, node):
        self._in_pattern = node.name == "_pat"
        self.generic_visit(node)
        uses = {}
        for n in ast.walk(node):
            if isinstance(n, ast.Name):
                uses[n.id] = uses.get(n.id, 0) + 1
        self._uses = uses
        # the value of `t = E; return t` can only be seen again by a finally block that reads t
        self._in_finally = {n.id for t in ast.walk(node) if isinstance(t, ast.Try) for f in t.finalbody for n in ast.walk(f) if isinstance(n, ast.Name)}
        for holder in ast.walk(node):
            for fld in ("body", "orelse", "finalbody"):
                b = getattr(holder, fld, None)
                if isinstance(b, list) and b and isinstance(b[0], ast.stmt) and not isinstance(holder, ast.ClassDef):
                    setattr(holder, fld, self._inline_cond_temps(self._split_ternary(self._merge_returns(b))))
            if isinstance(holder, ast.Try):
                for h in holder.handlers:
                    h.body = self._inline_cond_temps(self._split_ternary(self._merge_returns(h.body)))
        return node

    visit_AsyncFunctionDef = visit_FunctionDef


def canonical(tree):
    tree = _Canon().visit(tree)
    ast.fix_missing_locations(tree)
    return tree
