"""Constant folding of module-level expressions ("what text does this pattern have?").

Tables and patterns are sometimes *generated* from each other at import time (``"^(%s)$" % "|".join(sorted(table))``).
The text is still a constant of the program; this evaluates such expressions from the syntax tree — nothing is imported
or executed — over literals, names bound at module level to foldable expressions, string / container operators and a
fixed list of pure builtins.  Anything else raises ``Unfoldable``."""
from __future__ import annotations

import ast


class Unfoldable(Exception):
    pass


_PURE = {
    "sorted": sorted, "tuple": tuple, "list": list, "set": set, "frozenset": frozenset, "dict": dict, "len": len, "str": str, "int": int,
    "reversed": lambda x: list(reversed(x)), "min": min, "max": max, "sum": sum, "repr": repr, "chr": chr, "ord": ord, "range": lambda *a: list(range(*a)),
    "enumerate": lambda x: list(enumerate(x)), "zip": lambda *a: list(zip(*a)), "map": None, "filter": None,
}
_STR_METHODS = {"join", "format", "upper", "lower", "strip", "lstrip", "rstrip", "replace", "split", "rsplit", "title", "zfill", "startswith", "endswith", "partition", "rpartition"}
_CONTAINER_METHODS = {"keys", "values", "items", "union", "difference", "intersection", "symmetric_difference", "copy", "get", "index", "count"}


def fold(expr, env, _depth=0, _local=None):
    """value of ``expr``; ``env``: name -> ast node of its module-level binding (ModuleInfo.assigns)"""
    if _depth > 40:
        raise Unfoldable("too deep")
    loc = _local or {}
    f = lambda e: fold(e, env, _depth + 1, loc)  # noqa: E731
    if isinstance(expr, ast.Constant):
        return expr.value
    if isinstance(expr, ast.Name):
        if expr.id in loc:
            return loc[expr.id]
        if expr.id in env:
            return fold(env[expr.id], env, _depth + 1, None)
        raise Unfoldable(f"name {expr.id}")
    if isinstance(expr, (ast.Tuple, ast.List, ast.Set)):
        vals = []
        for e in expr.elts:
            if isinstance(e, ast.Starred):
                vals.extend(f(e.value))
            else:
                vals.append(f(e))
        return tuple(vals) if isinstance(expr, ast.Tuple) else (list(vals) if isinstance(expr, ast.List) else set(vals))
    if isinstance(expr, ast.Dict):
        out = {}
        for k, v in zip(expr.keys, expr.values):
            if k is None:
                out.update(f(v))
            else:
                out[f(k)] = f(v)
        return out
    if isinstance(expr, ast.JoinedStr):
        parts = []
        for v in expr.values:
            if isinstance(v, ast.Constant):
                parts.append(str(v.value))
            else:
                val = f(v.value)
                spec = f(v.format_spec) if v.format_spec is not None else ""
                if v.conversion == 114:
                    val = repr(val)
                elif v.conversion == 115:
                    val = str(val)
                parts.append(format(val, spec))
        return "".join(parts)
    if isinstance(expr, ast.BinOp):
        l, r = f(expr.left), f(expr.right)
        try:
            if isinstance(expr.op, ast.Add):
                return l + r
            if isinstance(expr.op, ast.Mod):
                return l % r
            if isinstance(expr.op, ast.Mult):
                return l * r
            if isinstance(expr.op, ast.BitOr):
                return l | r
            if isinstance(expr.op, ast.BitAnd):
                return l & r
            if isinstance(expr.op, ast.Sub):
                return l - r
            if isinstance(expr.op, ast.BitXor):
                return l ^ r
        except Exception as e:
            raise Unfoldable(str(e))
        raise Unfoldable("operator")
    if isinstance(expr, ast.UnaryOp) and isinstance(expr.op, ast.USub):
        return -f(expr.operand)
    if isinstance(expr, ast.UnaryOp) and isinstance(expr.op, ast.Not):
        return not f(expr.operand)
    if isinstance(expr, ast.BoolOp):
        vals = [f(v) for v in expr.values]
        res = vals[0]
        for v in vals[1:]:
            res = (res and v) if isinstance(expr.op, ast.And) else (res or v)
        return res
    if isinstance(expr, ast.Compare):
        import operator as _o
        ops = {ast.Eq: _o.eq, ast.NotEq: _o.ne, ast.Lt: _o.lt, ast.LtE: _o.le, ast.Gt: _o.gt, ast.GtE: _o.ge, ast.In: lambda a, b: a in b,
               ast.NotIn: lambda a, b: a not in b, ast.Is: _o.is_, ast.IsNot: _o.is_not}
        left = f(expr.left)
        for op, c in zip(expr.ops, expr.comparators):
            right = f(c)
            try:
                if not ops[type(op)](left, right):
                    return False
            except Exception as e:
                raise Unfoldable(str(e))
            left = right
        return True
    if isinstance(expr, ast.Subscript):
        try:
            return f(expr.value)[f(expr.slice)]
        except Unfoldable:
            raise
        except Exception as e:
            raise Unfoldable(str(e))
    if isinstance(expr, ast.Slice):
        return slice(f(expr.lower) if expr.lower else None, f(expr.upper) if expr.upper else None, f(expr.step) if expr.step else None)
    if isinstance(expr, ast.IfExp):
        return f(expr.body) if f(expr.test) else f(expr.orelse)
    if isinstance(expr, (ast.ListComp, ast.SetComp, ast.GeneratorExp, ast.DictComp)):
        return _comp(expr, env, _depth, loc)
    if isinstance(expr, ast.Call):
        if expr.keywords and not (isinstance(expr.func, ast.Attribute) and expr.func.attr == "format") and not (
                isinstance(expr.func, ast.Name) and expr.func.id == "sorted" and all(k.arg == "reverse" for k in expr.keywords)):
            raise Unfoldable("keywords")
        if isinstance(expr.func, ast.Name) and _PURE.get(expr.func.id) is not None and expr.func.id not in loc and expr.func.id not in env:
            args = [f(a) for a in expr.args]
            kw = {k.arg: f(k.value) for k in expr.keywords}
            try:
                return _PURE[expr.func.id](*args, **kw)
            except Exception as e:
                raise Unfoldable(str(e))
        if isinstance(expr.func, ast.Attribute):
            recv = f(expr.func.value)
            m = expr.func.attr
            if (isinstance(recv, str) and m in _STR_METHODS) or (isinstance(recv, (dict, set, frozenset, tuple, list)) and m in _CONTAINER_METHODS):
                args = [f(a) for a in expr.args]
                kw = {k.arg: f(k.value) for k in expr.keywords}
                try:
                    res = getattr(recv, m)(*args, **kw)
                except Exception as e:
                    raise Unfoldable(str(e))
                return list(res) if m in ("keys", "values", "items") else res
            if m == "escape" and isinstance(expr.func.value, ast.Name) and expr.func.value.id == "re":
                import re
                return re.escape(f(expr.args[0]))
        raise Unfoldable(f"call {ast.unparse(expr.func)}")
    raise Unfoldable(type(expr).__name__)


def _comp(expr, env, depth, loc):
    gens = expr.generators
    results = []

    def bind(target, val, scope):
        if isinstance(target, ast.Name):
            scope[target.id] = val
        elif isinstance(target, (ast.Tuple, ast.List)):
            vals = list(val)
            if len(vals) != len(target.elts):
                raise Unfoldable("unpack")
            for t, v in zip(target.elts, vals):
                bind(t, v, scope)
        else:
            raise Unfoldable("target")

    def rec(i, scope):
        if i == len(gens):
            if isinstance(expr, ast.DictComp):
                results.append((fold(expr.key, env, depth + 1, scope), fold(expr.value, env, depth + 1, scope)))
            else:
                results.append(fold(expr.elt, env, depth + 1, scope))
            return
        g = gens[i]
        it = fold(g.iter, env, depth + 1, scope)
        if isinstance(it, dict):
            it = list(it)
        n = 0
        for v in it:
            n += 1
            if n > 5000:
                raise Unfoldable("too many")
            s2 = dict(scope)
            bind(g.target, v, s2)
            if all(fold(c, env, depth + 1, s2) for c in g.ifs):
                rec(i + 1, s2)
    rec(0, dict(loc))
    if isinstance(expr, ast.DictComp):
        return dict(results)
    if isinstance(expr, ast.SetComp):
        return set(results)
    return results


def try_fold(expr, env):
    try:
        return fold(expr, env)
    except Unfoldable:
        return None
    except RecursionError:
        return None
