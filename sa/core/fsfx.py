"""Filesystem-mutation summaries: which paths does a function (transitively) create, write, rename or delete?

Each direct mutation site is recorded with the *sources* of its path expression (effects.sources: parameters, self
attributes ...), so rules can speak about "the published path" without spelling local names.  Callees resolved inside
pkgcore (self.method(), module functions) contribute their sites, re-rooted at the call."""
from __future__ import annotations

import ast

from . import astutil as A
from . import effects
from .model import FuncInfo, dotted

# callee (last dotted component) -> (operation, index of the path argument)
FS_CALLS = {
    "rename": ("rename", 1), "replace": ("rename", 1), "remove": ("delete", 0), "unlink": ("delete", 0), "rmdir": ("delete", 0), "rmtree": ("delete", 0),
    "unlink_if_exists": ("delete", 0), "mkdir": ("create", 0), "makedirs": ("create", 0), "ensure_dirs": ("create", 0), "chmod": ("meta", 0), "chown": ("meta", 0),
    "lchown": ("meta", 0), "utime": ("meta", 0), "symlink": ("create", 1), "link": ("create", 1), "move": ("rename", 1), "copyfile": ("write", 1), "copy2": ("write", 1),
    "copytree": ("write", 1), "AtomicWriteFile": ("write", 0), "transfer_to_path": ("write", 0), "touch": ("write", 0), "mkfifo": ("create", 0), "mknod": ("create", 0),
    "truncate": ("write", 0),
}
OS_ONLY = {"rename", "replace", "remove", "unlink", "rmdir", "mkdir", "makedirs", "chmod", "chown", "lchown", "utime", "symlink", "link", "mkfifo", "mknod", "truncate"}


class Site:
    __slots__ = ("node", "op", "path", "srcs", "via", "src_path", "src_srcs")

    def __init__(self, node, op, path, srcs, via=None, src_path=None, src_srcs=None):
        self.node, self.op, self.path, self.srcs, self.via, self.src_path, self.src_srcs = node, op, path, frozenset(srcs), via, src_path, frozenset(src_srcs or ())

    def __repr__(self):
        return f"<fs {self.op} {self.path} @{getattr(self.node, 'lineno', '?')} srcs={sorted(self.srcs)}{' via ' + self.via if self.via else ''}>"


class Engine:
    def __init__(self, prog):
        self.prog = prog
        self.fx = effects.engine(prog)
        self._memo = {}
        self._active = set()

    def direct(self, fi: FuncInfo):
        fx = self.fx.fx(fi)
        out = []
        for c in A.calls(fi.node, into_nested=True):
            d = dotted(c.func) or (c.func.attr if isinstance(c.func, ast.Attribute) else "")
            last = d.split(".")[-1]
            if last == "open" and c.args:
                mode = None
                if len(c.args) >= 2:
                    mode = A.const(c.args[1])
                for k in c.keywords:
                    if k.arg == "mode":
                        mode = A.const(k.value)
                if isinstance(mode, str) and any(ch in mode for ch in "wa+x"):
                    out.append(Site(c, "write", A.unparse(c.args[0]), fx.sources(c.args[0], c)))
                continue
            if last in FS_CALLS:
                if last in OS_ONLY and not d.startswith(("os.", "shutil.")) and d != last:
                    continue  # some_obj.remove(x): a container method, not the filesystem
                if last in OS_ONLY and d == last and last in ("remove", "replace", "link", "truncate"):
                    continue
                op, idx = FS_CALLS[last]
                if last == "transfer_to_path" and c.args:
                    idx = 0
                if idx < len(c.args):
                    p = c.args[idx]
                    s0 = c.args[0] if op in ("rename",) and idx == 1 else None
                    out.append(Site(c, op, A.unparse(p), fx.sources(p, c), None, A.unparse(s0) if s0 is not None else None, fx.sources(s0, c) if s0 is not None else None))
        return out

    def sites(self, fi: FuncInfo, depth=0):
        """direct sites plus the sites of resolved callees (self-rooted sources carried over for self.method() calls)"""
        k = fi.fq
        if k in self._memo:
            return self._memo[k]
        if k in self._active or depth > 5:
            return []
        self._active.add(k)
        try:
            out = list(self.direct(fi))
            fx = self.fx.fx(fi)
            for c in A.calls(fi.node, into_nested=True):
                callee, recv, bound = fx.resolve_call(c)
                if not isinstance(callee, FuncInfo) or callee is fi:
                    continue
                sub = self.sites(callee, depth + 1)
                if not sub:
                    continue
                binding = fx._bind_args(c, callee, bound)
                same_self = bound and isinstance(recv, ast.Name) and recv.id == fx.selfname
                if not bound and callee.cls is not None and callee.params():
                    a0 = binding.get(callee.params()[0])
                    if isinstance(a0, ast.Name) and a0.id == fx.selfname:
                        same_self = True  # Base.method(self, ...): the callee works on this very object
                        recv = a0
                for s in sub:
                    srcs = set()
                    for t in s.srcs:
                        if t.startswith("param:") and t[6:] in binding:
                            srcs |= fx.sources(binding[t[6:]], c)
                        elif t.startswith("self:") and not same_self:
                            srcs |= fx.sources(recv, c) if recv is not None else {"unknown"}
                        else:
                            srcs.add(t)
                    out.append(Site(c, s.op, s.path, srcs, via=(callee.qual + (" > " + s.via if s.via else ""))))
            self._memo[k] = out
            return out
        finally:
            self._active.discard(k)


_ENG = {}


def engine(prog):
    e = _ENG.get(id(prog))
    if e is None:
        e = _ENG[id(prog)] = Engine(prog)
    return e
