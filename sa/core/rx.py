"""Facts about *literal* regular expressions lifted from the source (uses the stdlib regex parser
``re._parser`` only to obtain the regex AST; the pattern is never matched against anything)."""
from __future__ import annotations

import re

try:
    import re._parser as sre_parse  # py3.11+
    import re._constants as sre_c
except ImportError:  # pragma: no cover
    import sre_parse
    import sre_constants as sre_c


def parse(pattern, flags=0):
    return sre_parse.parse(pattern, flags)


def finite_words(sub, limit=64):
    """Language of a finite sub-pattern as a set of strings; ValueError when not finite/simple."""
    words = {""}
    for op, av in sub:
        if op == sre_c.LITERAL:
            words = {w + chr(av) for w in words}
        elif op == sre_c.SUBPATTERN:
            inner = finite_words(av[3], limit)
            words = {w + i for w in words for i in inner}
        elif op == sre_c.BRANCH:
            alts = set()
            for alt in av[1]:
                alts |= finite_words(alt, limit)
            words = {w + a for w in words for a in alts}
        elif op == sre_c.MAX_REPEAT or op == sre_c.MIN_REPEAT:
            lo, hi, item = av
            if hi is sre_c.MAXREPEAT or hi > 3:
                raise ValueError("unbounded repeat")
            inner = finite_words(item, limit)
            acc = set()
            for n in range(lo, hi + 1):
                ws = {""}
                for _ in range(n):
                    ws = {a + b for a in ws for b in inner}
                acc |= ws
            words = {w + a for w in words for a in acc}
        elif op == sre_c.IN:
            chars = class_chars(av)
            if chars is None or len(chars) > 8:
                raise ValueError("class")
            words = {w + c for w in words for c in chars}
        elif op == sre_c.AT:
            continue
        else:
            raise ValueError(str(op))
        if len(words) > limit:
            raise ValueError("too many words")
    return words


def class_chars(items, universe=None):
    """Characters (within printable ASCII) admitted by a character class item list."""
    universe = universe or [chr(c) for c in range(32, 127)]
    neg = False
    pos = set()
    for op, av in items:
        if op == sre_c.NEGATE:
            neg = True
        elif op == sre_c.LITERAL:
            pos.add(chr(av))
        elif op == sre_c.RANGE:
            pos |= {chr(c) for c in range(av[0], av[1] + 1)}
        elif op == sre_c.CATEGORY:
            name = str(av)
            for ch in universe:
                if "DIGIT" in name and "NOT" not in name and ch.isdigit():
                    pos.add(ch)
                elif "WORD" in name and "NOT" not in name and (ch.isalnum() or ch == "_"):
                    pos.add(ch)
                elif "SPACE" in name and "NOT" not in name and ch.isspace():
                    pos.add(ch)
        else:
            return None
    if neg:
        return {c for c in universe if c not in pos}
    return {c for c in pos if c in universe}


def find_subpatterns(sub, pred, out=None):
    """All (op, av) items anywhere in the regex AST for which pred(op, av)."""
    out = [] if out is None else out
    for op, av in sub:
        if pred(op, av):
            out.append((op, av))
        if op == sre_c.SUBPATTERN:
            find_subpatterns(av[3], pred, out)
        elif op == sre_c.BRANCH:
            for alt in av[1]:
                find_subpatterns(alt, pred, out)
        elif op in (sre_c.MAX_REPEAT, sre_c.MIN_REPEAT):
            find_subpatterns(av[2], pred, out)
        elif op in (sre_c.ASSERT, sre_c.ASSERT_NOT):
            find_subpatterns(av[1], pred, out)
    return out


def branches(pattern):
    """Word sets of every alternation (BRANCH) in the pattern that is a finite language."""
    res = []
    for op, av in find_subpatterns(parse(pattern), lambda o, a: o == sre_c.BRANCH):
        try:
            res.append(finite_words([(op, av)]))
        except ValueError:
            pass
    return res


def classes(pattern):
    """Character sets of every [...] class in the pattern, in order."""
    res = []
    for op, av in find_subpatterns(parse(pattern), lambda o, a: o == sre_c.IN):
        res.append(class_chars(av))
    return res


BRANCH, IN, LITERAL, SUBPATTERN, MAX_REPEAT, AT = (
    sre_c.BRANCH,
    sre_c.IN,
    sre_c.LITERAL,
    sre_c.SUBPATTERN,
    sre_c.MAX_REPEAT,
    sre_c.AT,
)


def _items(pattern):
    t = parse(pattern) if isinstance(pattern, str) else pattern
    return list(t)


def end_anchored(pattern, strict=False):
    """the pattern's last top-level item is ``$`` / ``\\Z`` (strict: only ``\\Z``, which does not accept a trailing newline)"""
    it = _items(pattern)
    if not it:
        return False
    op, av = it[-1]
    if op != sre_c.AT:
        return False
    return av == sre_c.AT_END_STRING or (not strict and av == sre_c.AT_END)


def start_anchored(pattern):
    it = _items(pattern)
    return bool(it) and it[0][0] == sre_c.AT and it[0][1] in (sre_c.AT_BEGINNING, sre_c.AT_BEGINNING_STRING)
