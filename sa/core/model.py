"""Program model: parses /repo's current working tree (DESIGN §2.1).

Nothing here imports or executes pkgcore.  The repo root is ``$VERIF_REPO`` or /repo
(the override exists for the sensitivity battery, which analyses scratch copies)."""
from __future__ import annotations

import ast
import hashlib
import os

from .report import AnalysisError


def repo_root():
    return os.environ.get("VERIF_REPO", "/repo")


class FuncInfo:
    def __init__(self, module, qual, node, cls=None):
        self.module = module
        self.qual = qual  # e.g. "CPV.__eq__" or "ver_cmp" or "make_wrapper.<locals>.PackageWrapper.commit"
        self.node = node
        self.cls = cls
        self.name = node.name
        self.relpath = module.relpath
        self.lineno = node.lineno

    @property
    def fq(self):
        return f"{self.module.name}:{self.qual}"

    def params(self):
        a = self.node.args
        return [x.arg for x in a.posonlyargs + a.args] + ([a.vararg.arg] if a.vararg else []) + [
            x.arg for x in a.kwonlyargs
        ] + ([a.kwarg.arg] if a.kwarg else [])

    def __repr__(self):
        return f"<func {self.fq}>"


class ClassInfo:
    def __init__(self, module, qual, node):
        self.module = module
        self.qual = qual
        self.node = node
        self.name = node.name
        self.relpath = module.relpath
        self.lineno = node.lineno
        self.methods = {}  # name -> FuncInfo
        self.assigns = {}  # class-level name -> value node (last assignment)
        self.base_exprs = list(node.bases)
        self.keywords = {k.arg: k.value for k in node.keywords if k.arg}

    @property
    def fq(self):
        return f"{self.module.name}:{self.qual}"

    def __repr__(self):
        return f"<class {self.fq}>"


class ModuleInfo:
    def __init__(self, name, path, relpath, src):
        self.name = name
        self.path = path
        self.relpath = relpath
        self.qual = "<module>"
        self.src = src
        self.lines = src.splitlines()
        self.tree = ast.parse(src, filename=path)
        if not os.environ.get("VERIF_NOCANON"):
            from .canon import canonical
            self.tree = canonical(self.tree)
        self.funcs = {}  # qual -> FuncInfo
        self.classes = {}  # qual -> ClassInfo
        self.assigns = {}  # module-level name -> value node (last)
        self.imports = {}  # local name -> ("module", modname) | ("attr", modname, attr)
        self.lineno = 1
        for n in ast.walk(self.tree):
            for c in ast.iter_child_nodes(n):
                c._parent = n
        self._index(self.tree.body, "", None)
        self._imports()

    def _index(self, body, prefix, cls):
        for st in body:
            if isinstance(st, (ast.FunctionDef, ast.AsyncFunctionDef)):
                q = prefix + st.name
                fi = FuncInfo(self, q, st, cls)
                self.funcs[q] = fi
                if cls is not None and q == cls.qual + "." + st.name:
                    cls.methods[st.name] = fi
                self._index(st.body, q + ".<locals>.", None)
            elif isinstance(st, ast.ClassDef):
                q = prefix + st.name
                ci = ClassInfo(self, q, st)
                self.classes[q] = ci
                self._index(st.body, q + ".", ci)
            elif isinstance(st, (ast.Assign, ast.AnnAssign)):
                tgts = st.targets if isinstance(st, ast.Assign) else [st.target]
                if getattr(st, "value", None) is None:
                    continue
                for t in tgts:
                    if isinstance(t, ast.Name):
                        if cls is not None and prefix == cls.qual + ".":
                            cls.assigns[t.id] = st.value
                        elif prefix == "":
                            self.assigns[t.id] = st.value
            elif isinstance(st, (ast.If, ast.Try, ast.With, ast.For, ast.While)):
                # definitions under module-level conditionals / try
                for fld in ("body", "orelse", "finalbody"):
                    self._index(getattr(st, fld, []) or [], prefix, cls)
                for h in getattr(st, "handlers", []) or []:
                    self._index(h.body, prefix, cls)

    def _imports(self):
        pkg_parts = self.name.split(".")
        is_pkg = self.path.endswith("__init__.py")
        for st in ast.walk(self.tree):
            if isinstance(st, ast.Import):
                for a in st.names:
                    if a.asname:
                        self.imports[a.asname] = ("module", a.name)
                    else:
                        self.imports[a.name.split(".")[0]] = ("module", a.name.split(".")[0])
            elif isinstance(st, ast.ImportFrom):
                if st.level:
                    base = pkg_parts if is_pkg else pkg_parts[:-1]
                    base = base[: len(base) - (st.level - 1)]
                    mod = ".".join(base + ([st.module] if st.module else []))
                else:
                    mod = st.module or ""
                for a in st.names:
                    self.imports[a.asname or a.name] = ("attr", mod, a.name)

    def seg(self, node):
        return ast.get_source_segment(self.src, node) or ""


class BashFile:
    def __init__(self, path, relpath, src):
        self.path, self.relpath, self.src = path, relpath, src
        self.name = os.path.basename(path)


class Program:
    def __init__(self, root=None, overlay=None, base=None):
        """``overlay`` maps repo-relative paths to replacement source text (sensitivity battery);
        ``base`` is an already parsed Program of the same root whose untouched modules are shared."""
        overlay = overlay or {}
        self.root = root or (base.root if base else repo_root())
        self.modules = {}  # dotted name -> ModuleInfo
        self.by_rel = {}
        self.bash = {}  # relpath -> BashFile
        h = hashlib.sha256()
        src_root = os.path.join(self.root, "src")
        pk = os.path.join(src_root, "pkgcore")
        if not os.path.isdir(pk):
            raise AnalysisError(f"{pk} not found")
        for dp, dns, fns in os.walk(pk):
            dns.sort()
            for fn in sorted(fns):
                if not fn.endswith(".py"):
                    continue
                path = os.path.join(dp, fn)
                rel = os.path.relpath(path, self.root)
                if rel in overlay:
                    src = overlay[rel]
                else:
                    with open(path, encoding="utf-8") as fh:
                        src = fh.read()
                h.update(rel.encode() + b"\0" + src.encode() + b"\0")
                modname = os.path.relpath(path, src_root)[:-3].replace(os.sep, ".")
                if modname.endswith(".__init__"):
                    modname = modname[: -len(".__init__")]
                if base is not None and rel not in overlay and rel in base.by_rel:
                    mi = base.by_rel[rel]
                else:
                    try:
                        mi = ModuleInfo(modname, path, rel, src)
                    except SyntaxError as e:
                        raise AnalysisError(f"{rel} does not parse: {e}")
                self.modules[modname] = mi
                self.by_rel[rel] = mi
        ebd = os.path.join(self.root, "data", "lib", "pkgcore", "ebd")
        if os.path.isdir(ebd):
            for dp, dns, fns in os.walk(ebd):
                dns[:] = sorted(d for d in dns if d != ".generated")
                for fn in sorted(fns):
                    path = os.path.join(dp, fn)
                    rel = os.path.relpath(path, self.root)
                    if os.path.islink(path):
                        self.bash[rel] = BashFile(path, rel, "#!symlink " + os.readlink(path))
                        continue
                    try:
                        if rel in overlay:
                            src = overlay[rel]
                        else:
                            with open(path, encoding="utf-8") as fh:
                                src = fh.read()
                    except (UnicodeDecodeError, OSError):
                        continue
                    h.update(rel.encode() + b"\0" + src.encode() + b"\0")
                    self.bash[rel] = BashFile(path, rel, src)
        self.digest = h.hexdigest()
        self.n_modules = len(self.modules)
        self.n_functions = sum(len(m.funcs) for m in self.modules.values())
        self.n_classes = sum(len(m.classes) for m in self.modules.values())
        self.n_bash = len(self.bash)

    # -- anchors (a vanished anchor is an analysis error) ---------------
    def module(self, name) -> ModuleInfo:
        m = self.modules.get(name)
        if m is None:
            raise AnalysisError(f"anchor module {name} not found")
        return m

    def func(self, modname, qual) -> FuncInfo:
        m = self.module(modname)
        f = m.funcs.get(qual)
        if f is None:
            raise AnalysisError(f"anchor function {modname}:{qual} not found")
        return f

    def func_opt(self, modname, qual):
        m = self.modules.get(modname)
        return m.funcs.get(qual) if m else None

    def cls(self, modname, qual) -> ClassInfo:
        m = self.module(modname)
        c = m.classes.get(qual)
        if c is None:
            raise AnalysisError(f"anchor class {modname}:{qual} not found")
        return c

    def cls_opt(self, modname, qual):
        m = self.modules.get(modname)
        return m.classes.get(qual) if m else None

    def bashfile(self, rel) -> BashFile:
        b = self.bash.get(rel)
        if b is None:
            raise AnalysisError(f"anchor bash source {rel} not found")
        return b

    # -- class resolution ------------------------------------------------
    def resolve_name(self, module: ModuleInfo, name: str, _depth=0):
        """Resolve a (dotted) name used in ``module`` to a ClassInfo / FuncInfo / ModuleInfo / None."""
        if _depth > 8:
            return None
        parts = name.split(".")
        head = parts[0]
        cur = None
        if head in module.classes:
            cur = module.classes[head]
        elif head in module.funcs:
            cur = module.funcs[head]
        elif head in module.imports:
            imp = module.imports[head]
            if imp[0] == "module":
                cur = self.modules.get(imp[1])
                if cur is None and imp[1] in ("pkgcore",):
                    cur = self.modules.get("pkgcore")
            else:
                _, mod, attr = imp
                sub = self.modules.get(f"{mod}.{attr}")
                if sub is not None:
                    cur = sub
                elif mod in self.modules:
                    cur = self.resolve_name(self.modules[mod], attr, _depth + 1)
        elif head in module.assigns:
            v = module.assigns[head]
            d = dotted(v)
            if d and d != name:
                cur = self.resolve_name(module, d, _depth + 1)
        if cur is None:
            return None
        for p in parts[1:]:
            if isinstance(cur, ModuleInfo):
                sub = self.modules.get(f"{cur.name}.{p}")
                if sub is not None:
                    cur = sub
                else:
                    cur = self.resolve_name(cur, p, _depth + 1)
            elif isinstance(cur, ClassInfo):
                nxt = cur.module.classes.get(f"{cur.qual}.{p}") or cur.methods.get(p)
                cur = nxt
            else:
                return None
            if cur is None:
                return None
        return cur

    def bases(self, ci: ClassInfo):
        out = []
        for b in ci.base_exprs:
            d = dotted(b)
            r = self.resolve_name(ci.module, d) if d else None
            out.append(r if isinstance(r, ClassInfo) else d)
        return out

    def mro(self, ci: ClassInfo):
        """Linearised ancestors inside the repo (depth-first, left-to-right, de-duplicated keeping
        the last occurrence: adequate for the single/diamond-free hierarchies in pkgcore).
        External bases appear as their dotted-name strings."""
        seen, order = set(), []

        def visit(c):
            key = c.fq if isinstance(c, ClassInfo) else c
            if key in seen:
                return
            seen.add(key)
            order.append(c)
            if isinstance(c, ClassInfo):
                for b in self.bases(c):
                    if b is not None:
                        visit(b)

        visit(ci)
        return order

    def lookup_attr(self, ci: ClassInfo, name):
        """Find method FuncInfo or class-level assignment node through the MRO.
        Returns (owner ClassInfo, FuncInfo|ast node) or (None, None)."""
        for c in self.mro(ci):
            if not isinstance(c, ClassInfo):
                continue
            if name in c.methods:
                return c, c.methods[name]
            if name in c.assigns:
                return c, c.assigns[name]
        return None, None

    def external_bases(self, ci):
        return [c for c in self.mro(ci) if isinstance(c, str)]

    def subclasses_of(self, target: ClassInfo):
        out = []
        for m in self.modules.values():
            for c in m.classes.values():
                if c is target:
                    continue
                if any(isinstance(x, ClassInfo) and x is target for x in self.mro(c)):
                    out.append(c)
        return out

    def all_classes(self):
        for m in self.modules.values():
            yield from m.classes.values()

    def all_funcs(self):
        for m in self.modules.values():
            yield from m.funcs.values()


def dotted(node):
    """Dotted name of a Name/Attribute chain, else None."""
    parts = []
    while isinstance(node, ast.Attribute):
        parts.append(node.attr)
        node = node.value
    if isinstance(node, ast.Name):
        parts.append(node.id)
        return ".".join(reversed(parts))
    return None
