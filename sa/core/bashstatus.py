"""Bash functions whose exit status is not "did it work", used as if it were.

A function that ends in ``[[ cond ]] && action`` returns the status of ``[[ cond ]]`` whenever the condition is false:
the idiom ``[[ ${ret} -ne 0 ]] && die ...`` at the end of a reader makes the reader return 1 exactly when it
*succeeded*.  Called as a plain command nobody looks at the status; used as a condition (``while reader x && ...``,
``if reader``, ``reader || ...``) the loop body never runs / the alternative always runs."""
from __future__ import annotations

from . import bashlex as B


def _last_node(tree):
    """last executed node of a seq tree"""
    if tree[0] == "seq":
        items = tree[1]
        return _last_node(items[-1]) if items else None
    return tree


def inverted_status_functions(src):
    """{name: line}: functions whose final command is `test && cmd` / `test || cmd` with a [[ ]] / [ ] / (( )) test on the left"""
    out = {}
    for name, fn in B.functions(src).items():
        try:
            tree = B.structure(fn.body, fn.body_line)
        except Exception:
            continue
        last = _last_node(tree)
        if last is None or last[0] != "andor":
            continue
        _, left, op, right = last
        l = _last_node(left) if left[0] == "seq" else left
        if l is not None and l[0] == "cmd" and l[1].name.split()[0].startswith(("[[", "[", "((", "test")) and op == "&&":
            # an explicit `return` / `true` as the right-hand side does not matter: it only runs when the test holds
            out[name] = l[1].line
    return out


def condition_uses(src, names):
    """[(function using it, line, kind)] uses of any of ``names`` in a condition position"""
    out = []

    def walk(node, owner):
        k = node[0]
        if k == "seq":
            for x in node[1]:
                walk(x, owner)
        elif k == "if":
            for cond, body in node[1]:
                flag(cond, owner, "if")
                walk(cond, owner)
                walk(body, owner)
            if node[2] is not None:
                walk(node[2], owner)
        elif k == "loop":
            _, kind, head, body = node
            if kind in ("while", "until") and head is not None:
                flag(head, owner, kind)
                walk(head, owner)
            walk(body, owner)
        elif k == "case":
            for pats, body in node[2]:
                walk(body, owner)
        elif k == "andor":
            _, l, op, r = node
            flag(l, owner, op, only_last=True)
            walk(l, owner)
            walk(r, owner)
        elif k == "group":
            walk(node[1], owner)

    def cmds_in(node):
        k = node[0]
        if k == "cmd":
            yield node[1]
        elif k == "seq":
            for x in node[1]:
                yield from cmds_in(x)
        elif k == "andor":
            yield from cmds_in(node[1])
            yield from cmds_in(node[3])
        elif k == "group":
            yield from cmds_in(node[1])

    def flag(cond, owner, kind, only_last=False):
        for c in cmds_in(cond):
            if c.name in names:
                out.append((owner, c.line, kind, c.name))

    for name, fn in B.functions(src).items():
        try:
            tree = B.structure(fn.body, fn.body_line)
        except Exception:
            continue
        walk(tree, name)
    # de-duplicate
    seen, uniq = set(), []
    for x in out:
        if (x[0], x[1], x[3]) not in seen:
            seen.add((x[0], x[1], x[3]))
            uniq.append(x)
    return uniq
