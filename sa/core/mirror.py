"""Syntactic symmetry of a two-operand predicate (C05.R1): swap two names and compare canonical forms.

Canonical form sorts the operands of commutative constructs (and/or, ==, !=, ^, |, &, set literals) so
that ``a.x == b.x`` and ``b.x == a.x`` coincide."""
from __future__ import annotations

import ast
import copy


class _Swap(ast.NodeTransformer):
    def __init__(self, a, b):
        self.a, self.b = a, b

    def visit_Name(self, node):
        if node.id == self.a:
            return ast.copy_location(ast.Name(id=self.b, ctx=node.ctx), node)
        if node.id == self.b:
            return ast.copy_location(ast.Name(id=self.a, ctx=node.ctx), node)
        return node


def clone(node):
    """structural copy following AST fields only (the loader's _parent links are not followed)"""
    if isinstance(node, list):
        return [clone(n) for n in node]
    if not isinstance(node, ast.AST):
        return node
    new = type(node)()
    for f in node._fields:
        if hasattr(node, f):
            setattr(new, f, clone(getattr(node, f)))
    for f in ("lineno", "col_offset", "end_lineno", "end_col_offset"):
        if hasattr(node, f):
            setattr(new, f, getattr(node, f))
    return new


def swap(node, a, b):
    if isinstance(node, list):
        return [swap(n, a, b) for n in node]
    return _Swap(a, b).visit(clone(node))


def canon(node):
    """Canonical text of an expression/statement modulo commutativity."""
    if isinstance(node, list):
        return "; ".join(canon(n) for n in node)
    if isinstance(node, ast.BoolOp):
        op = "and" if isinstance(node.op, ast.And) else "or"
        return "(" + f" {op} ".join(sorted(canon(v) for v in node.values)) + ")"
    if isinstance(node, ast.Compare):
        if len(node.ops) == 1 and isinstance(node.ops[0], (ast.Eq, ast.NotEq)):
            op = "==" if isinstance(node.ops[0], ast.Eq) else "!="
            l, r = sorted([canon(node.left), canon(node.comparators[0])])
            return f"({l} {op} {r})"
        if all(isinstance(o, ast.Eq) for o in node.ops):
            return "(" + " == ".join(sorted([canon(node.left)] + [canon(c) for c in node.comparators])) + ")"
        parts = [canon(node.left)]
        for o, c in zip(node.ops, node.comparators):
            parts.append(type(o).__name__)
            parts.append(canon(c))
        return "(" + " ".join(parts) + ")"
    if isinstance(node, ast.BinOp) and isinstance(node.op, (ast.BitXor, ast.BitOr, ast.BitAnd)):
        l, r = sorted([canon(node.left), canon(node.right)])
        return f"({l} {type(node.op).__name__} {r})"
    if isinstance(node, ast.UnaryOp) and isinstance(node.op, ast.Not):
        return f"(not {canon(node.operand)})"
    if isinstance(node, ast.If):
        return f"if {canon(node.test)}: [{canon(node.body)}] else: [{canon(node.orelse)}]"
    if isinstance(node, ast.Return):
        return "return " + (canon(node.value) if node.value is not None else "None")
    if isinstance(node, ast.For):
        return f"for {canon(node.target)} in {canon(node.iter)}: [{canon(node.body)}]"
    if isinstance(node, ast.Assign):
        return ",".join(canon(t) for t in node.targets) + " = " + canon(node.value)
    if isinstance(node, ast.Expr):
        return canon(node.value)
    if isinstance(node, ast.Call):
        args = [canon(a) for a in node.args] + [f"{k.arg}={canon(k.value)}" for k in node.keywords]
        return f"{canon(node.func)}({', '.join(args)})"
    if isinstance(node, ast.Attribute):
        return f"{canon(node.value)}.{node.attr}"
    if isinstance(node, ast.Subscript):
        return f"{canon(node.value)}[{canon(node.slice)}]"
    if isinstance(node, (ast.Tuple, ast.List)):
        return "(" + ", ".join(canon(e) for e in node.elts) + ")"
    if isinstance(node, ast.Set):
        return "{" + ", ".join(sorted(canon(e) for e in node.elts)) + "}"
    try:
        return ast.unparse(node)
    except Exception:
        return "<?>"


def alpha_names(fn_node):
    """local names (parameters after the first, and assigned names) -> v0, v1, ... by first appearance"""
    order = []
    args = [a.arg for a in fn_node.args.args[1:]]
    for a in args:
        if a not in order:
            order.append(a)
    for n in ast.walk(fn_node):
        if isinstance(n, ast.Name) and isinstance(n.ctx, ast.Store) and n.id not in order:
            order.append(n.id)
    return {name: f"v{i}" for i, name in enumerate(order)}


class _Rename(ast.NodeTransformer):
    def __init__(self, m):
        self.m = m

    def visit_Name(self, node):
        if node.id in self.m:
            return ast.copy_location(ast.Name(id=self.m[node.id], ctx=node.ctx), node)
        return node


def alpha_canon(fn_node, stmts=None, extra=None):
    """canonical text of a function body with local names alpha-renamed (and ``extra`` textual substitutions)"""
    m = alpha_names(fn_node)
    body = clone(stmts if stmts is not None else fn_node.body)
    out = []
    for st in body:
        if isinstance(st, ast.Expr) and isinstance(st.value, ast.Constant):
            continue
        out.append(canon(_Rename(m).visit(st)))
    txt = "; ".join(out)
    for a, b in (extra or {}).items():
        txt = txt.replace(a, b)
    return txt
