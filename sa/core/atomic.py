"""Atomic-replace typestate rule shared by C24/C27/C28/C30/C47 (DESIGN C24.R3).

A persistent file is written through a handle whose ``close()`` publishes (renames the temporary over the
final path).  Necessary conditions decided here, on the function's AST/CFG:
  * the publishing ``close()`` is never inside a ``finally`` block or an ``except`` handler (those run
    after a failed write and would publish a partial file);
  * every ``write`` precedes the ``close`` and none follows it;
  * a failing write discards: an ``except`` handler or ``finally`` block calls ``discard()`` or drops the
    handle (``del h``: snakeoil's AtomicWriteFile discards on finalisation)."""
from __future__ import annotations

import ast

from . import astutil as A
from .cfg import cfg_of
from .model import dotted


def _in_finally_or_handler(node):
    child = node
    for p in A.parents(node):
        if isinstance(p, ast.Try) and any(child is s or A.contains_node(s, child) for s in p.finalbody):
            return "finally"
        if isinstance(p, ast.ExceptHandler):
            return "except"
        child = p
    return None


def handle_names(fn, ctor_names=("AtomicWriteFile",), factory_calls=()):
    out = {}
    for t, v, st in A.assignments(fn.node):
        if isinstance(t, ast.Name) and isinstance(v, ast.Call):
            d = dotted(v.func) or ""
            if d.split(".")[-1] in ctor_names or d in factory_calls or A.unparse(v) in factory_calls:
                out[t.id] = v
    return out


def check(ctx, rule, fn, handles, what="the file"):
    """``handles``: iterable of local names bound to an atomic-write handle."""
    n = 0
    g = cfg_of(fn.node)
    for h in handles:
        closes = [c for c in A.calls(fn.node) if A.unparse(c.func) == f"{h}.close"]
        writes = [c for c in A.calls(fn.node) if A.unparse(c.func) in (f"{h}.write", f"{h}.writelines")]
        ctx.check(rule, fn, len(closes) >= 1, f"publishes:{h}", f"{fn.qual} publishes {what} by closing the atomic handle `{h}`", f"{fn.qual} never closes `{h}`: nothing is published")
        for c in closes:
            where = _in_finally_or_handler(c)
            ctx.check(rule, fn, where is None, f"close-not-in-{where or 'cleanup'}:{h}", f"`{h}.close()` (which renames the temporary over {what}) is reached only on the exception-free path",
                      f"{fn.qual} calls `{h}.close()` inside a `{where}` block: after a failed or interrupted write the half-written temporary is renamed over {what}", node=c)
            n += 1
            cn = g.node_of(c)
            for w in writes:
                wn = g.node_of(w)
                ok = cn in g.reach([wn]) and wn not in g.reach([cn], edge_ok=lambda a, b, lab: True) or (cn in g.reach([wn]) and wn not in g.reach([cn]))
                # a write inside a loop may precede and (syntactically) follow itself; what matters: no write after close
                ctx.check(rule, fn, cn in g.reach([wn]) and wn not in g.reach([cn]), f"write-before-close:{h}@{w.lineno - fn.node.lineno}", f"`{A.unparse(w)[:40]}` happens before the publishing close and never after it", node=w)
        # nothing else opens the published path for writing: `open(path, "w")` (a lock file, a "touch") truncates the live file
        # before the replacement is complete
        ctor = next((v for t, v, st in A.assignments(fn.node) if isinstance(t, ast.Name) and t.id == h and isinstance(v, ast.Call) and v.args), None)
        if ctor is not None:
            live = A.unparse(ctor.args[0])
            for c in A.calls(fn.node, into_nested=True):
                if (dotted(c.func) or "").split(".")[-1] == "open" and c.args and A.unparse(c.args[0]) == live:
                    mode = A.const(c.args[1]) if len(c.args) > 1 else next((A.const(k.value) for k in c.keywords if k.arg == "mode"), "r")
                    writes_live = isinstance(mode, str) and any(ch in mode for ch in "wa+x")
                    ctx.check(rule, fn, not writes_live, f"live-path-opened-for-writing:{h}", f"`{A.unparse(c)[:50]}` only reads {what}",
                              f"{fn.qual} opens `{live}` itself with mode {mode!r} next to the atomic handle: {what} is truncated / modified in place before the replacement "
                              f"is complete, so a crash or a concurrent reader sees an empty or partial file", node=c)
            # ... and nothing moves the published file away first (a "keep a backup" rename before the replacing close opens a
            # window, and a failure in between leaves no file at all)
            for c in A.calls(fn.node, into_nested=True):
                if (dotted(c.func) or "") in ("os.rename", "os.replace", "shutil.move") and c.args and A.unparse(c.args[0]) == live:
                    ctx.check(rule, fn, False, f"live-path-renamed-away:{h}", "", f"{fn.qual} renames `{live}` away (`{A.unparse(c)[:60]}`) although the atomic handle's close replaces it in one step: "
                              f"between the two, and after any failure of the close, {what} does not exist", node=c)
        # failure handling
        cleanup = []
        for x in A.body_walk(fn.node):
            if isinstance(x, ast.Call) and A.unparse(x.func) == f"{h}.discard" and _in_finally_or_handler(x):
                cleanup.append(x)
            if isinstance(x, ast.Delete) and any(A.unparse(t) == h for t in x.targets) and _in_finally_or_handler(x):
                cleanup.append(x)
        ctx.check(rule, fn, bool(cleanup), f"discards-on-failure:{h}", f"a failing write discards the temporary (`{h}.discard()` / `del {h}` in except/finally)",
                  f"{fn.qual} has no failure path that discards `{h}`: an exception leaves the temporary behind or publishes it later")
    return n
