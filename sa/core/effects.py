"""Mutation-effect and value-provenance analysis ("who may be modified by this function?").

Why: many of the catalogue's properties say that a result is a function of the arguments / of the recorded data only
(comparisons, matching, pull_data, manifest and environment generation ...).  A *necessary condition* is that the
deciding functions do not modify, in place, objects they did not create: their parameters, attributes of ``self``, class
or module level containers, or values handed out by a memoising helper.  A unit test that calls the function once can
not see such a write; the next caller does.

What is computed, per function (flow-sensitive over the statement CFG, inter-procedural through summaries):
  * reaching definitions of local names;
  * the *provenance* of an expression: a set of root tags
        fresh            built by this call (literal, comprehension, constructor, copy, str.split ...)
        param:<name>     the caller's object
        self:<attr>      state of the receiver (``self.x`` / ``cls.x``)
        global:<mod>.<n> module level object
        cached:<fq>      returned by a memoised function (lru_cache & friends): shared between calls
        unknown          result of an unresolved call (reported separately; never a violation by itself)
  * the list of *mutation sites*: subscript / attribute stores and deletes, in-place operators, calls of mutating
    container methods, and calls that pass the object to a parameter the (resolved) callee mutates.
Every site carries the provenance of the object written, so a rule can state e.g. "ver_cmp writes only to fresh
objects" or "pull_data never writes to self.*".

Limits (stated, because a verdict depends on them): unresolved callees are assumed not to mutate their arguments and to
return ``unknown``; element-level aliasing inside containers is tracked only as "element of <root>"; nested functions
are analysed as part of their parent with the parent's definitions."""
from __future__ import annotations

import ast

from . import astutil as A
from .cfg import cfg_of
from .model import ClassInfo, FuncInfo, ModuleInfo, dotted

MUTATORS = {
    "append", "extend", "insert", "pop", "remove", "clear", "sort", "reverse", "update", "add", "discard",
    "setdefault", "popitem", "difference_update", "intersection_update", "symmetric_difference_update",
    "appendleft", "extendleft", "popleft", "__setitem__", "__delitem__",
}
# methods that hand out (a reference to) an element / the object itself
ELEMENT_GETTERS = {"get", "setdefault", "pop", "popitem", "__getitem__"}
FRESH_BUILTINS = {
    "list", "dict", "set", "frozenset", "tuple", "sorted", "bytearray", "bytes", "str", "int", "float", "bool",
    "OrderedDict", "defaultdict", "deque", "Counter", "len", "repr", "hash", "id", "abs", "min", "max", "sum",
    "any", "all", "range", "enumerate", "zip", "map", "filter", "reversed", "iter", "isinstance", "issubclass",
    "getattr_fresh", "object", "type", "open", "chain", "partial", "format", "ord", "chr", "divmod", "round",
}
FRESH_METHODS = {
    "copy", "split", "rsplit", "splitlines", "partition", "rpartition", "strip", "lstrip", "rstrip", "join", "format",
    "replace", "lower", "upper", "encode", "decode", "keys", "values", "items", "difference", "union", "intersection",
    "symmetric_difference", "startswith", "endswith", "find", "rfind", "index", "count", "group", "groups", "match",
    "search", "fullmatch", "finditer", "findall", "sub", "read", "readlines", "readline", "title", "zfill", "casefold",
    "isdigit", "isalpha", "fromkeys", "most_common", "__copy__", "__deepcopy__", "hexdigest", "digest",
}
COPY_FUNCS = {"copy.copy", "copy.deepcopy", "copy", "deepcopy"}
CACHE_DECORATORS = ("lru_cache", "cache", "cached_property", "jit_attr", "jit_attr_named", "jit_attr_ext_method",
                    "cached_hash", "steal_docs_cached", "memoize", "memoized")
CONTAINER_EVIDENCE = MUTATORS | {"copy", "keys", "values", "items", "union", "difference", "intersection", "issubset",
                                 "issuperset", "isdisjoint"}


class Def:
    """one definition of a local name: the value expression (or None) and how it binds"""
    __slots__ = ("name", "value", "kind", "stmt")

    def __init__(self, name, value, kind, stmt):
        self.name, self.value, self.kind, self.stmt = name, value, kind, stmt  # kind: assign|elem|aug|param|opaque


class Site:
    __slots__ = ("node", "how", "target", "prov", "via")

    def __init__(self, node, how, target, prov, via=None):
        self.node, self.how, self.target, self.prov, self.via = node, how, target, frozenset(prov), via

    @property
    def line(self):
        return getattr(self.node, "lineno", 0)

    def roots(self, *prefixes):
        return sorted(t for t in self.prov if t.startswith(prefixes))

    def __repr__(self):
        return f"<mutation {self.how} of {self.target} @{self.line} prov={sorted(self.prov)}{' via ' + self.via if self.via else ''}>"


def _is_cached(fn_node):
    for d in getattr(fn_node, "decorator_list", []):
        txt = ast.unparse(d)
        if any(txt.split("(")[0].split(".")[-1] == c for c in CACHE_DECORATORS):
            return True
    return False


def _targets_defs(target, value, stmt, out, kind="assign"):
    if isinstance(target, ast.Name):
        out.append(Def(target.id, value, kind, stmt))
    elif isinstance(target, (ast.Tuple, ast.List)):
        if isinstance(value, (ast.Tuple, ast.List)) and len(value.elts) == len(target.elts) and kind == "assign":
            for t, v in zip(target.elts, value.elts):
                _targets_defs(t, v, stmt, out, kind)
        else:
            for t in target.elts:
                _targets_defs(t, value, stmt, out, "elem")
    elif isinstance(target, ast.Starred):
        _targets_defs(target.value, value, stmt, out, "elem")


def _stmt_defs(st):
    """definitions made by the *header* of a statement (CFG node granularity)"""
    out = []
    if isinstance(st, ast.Assign):
        for t in st.targets:
            _targets_defs(t, st.value, st, out)
    elif isinstance(st, ast.AnnAssign) and st.value is not None:
        _targets_defs(st.target, st.value, st, out)
    elif isinstance(st, ast.AugAssign):
        if isinstance(st.target, ast.Name):
            out.append(Def(st.target.id, st, "aug", st))
    elif isinstance(st, (ast.For, ast.AsyncFor)):
        _targets_defs(st.target, st.iter, st, out, "elem")
    elif isinstance(st, (ast.With, ast.AsyncWith)):
        for it in st.items:
            if it.optional_vars is not None:
                _targets_defs(it.optional_vars, it.context_expr, st, out, "opaque")
    elif isinstance(st, ast.ExceptHandler):
        if st.name:
            out.append(Def(st.name, None, "opaque", st))
    elif isinstance(st, (ast.Import, ast.ImportFrom)):
        for a in st.names:
            out.append(Def((a.asname or a.name).split(".")[0], None, "opaque", st))
    elif isinstance(st, (ast.FunctionDef, ast.AsyncFunctionDef, ast.ClassDef)):
        out.append(Def(st.name, None, "opaque", st))
    # walrus anywhere in the header expressions
    hdr = _header_exprs(st)
    for h in hdr:
        for n in ast.walk(h):
            if isinstance(n, ast.NamedExpr) and isinstance(n.target, ast.Name):
                out.append(Def(n.target.id, n.value, "assign", st))
            elif isinstance(n, (ast.ListComp, ast.SetComp, ast.DictComp, ast.GeneratorExp)):
                pass
    return out


def _header_exprs(st):
    if isinstance(st, (ast.If, ast.While)):
        return [st.test]
    if isinstance(st, (ast.For, ast.AsyncFor)):
        return [st.iter]
    if isinstance(st, (ast.With, ast.AsyncWith)):
        return [i.context_expr for i in st.items]
    if isinstance(st, ast.ExceptHandler):
        return [st.type] if st.type is not None else []
    if isinstance(st, (ast.FunctionDef, ast.AsyncFunctionDef, ast.ClassDef)):
        return []
    if isinstance(st, ast.Match):
        return [st.subject]
    if isinstance(st, ast.Try):
        return []
    return [st]


class FuncEffects:
    """analysis of one function"""

    def __init__(self, eng, fi: FuncInfo):
        self.eng, self.fi = eng, fi
        self.fn = fi.node
        self.mod = fi.module
        self.cfg = cfg_of(self.fn)
        a = self.fn.args
        self.params = [x.arg for x in a.posonlyargs + a.args] + [x.arg for x in a.kwonlyargs]
        self.vararg = a.vararg.arg if a.vararg else None
        self.kwarg = a.kwarg.arg if a.kwarg else None
        is_method = fi.cls is not None and not any(
            ast.unparse(d) == "staticmethod" for d in self.fn.decorator_list)
        self.selfname = self.params[0] if (is_method and self.params) else None
        self.is_init = fi.name in ("__init__", "__new__", "__setstate__", "__post_init__")
        self._rd = None
        self._sites = None
        self._prov_memo = {}

    # ---- reaching definitions --------------------------------------------------------------------------------------
    def _reaching(self):
        if self._rd is not None:
            return self._rd
        g = self.cfg
        gen, names = {}, set()
        for n in g.nodes:
            ds = _stmt_defs(n.ast) if n.ast is not None else []
            gen[n.id] = ds
            names.update(d.name for d in ds)
        entry_defs = [Def(p, None, "param", None) for p in self.params]
        if self.vararg:
            entry_defs.append(Def(self.vararg, None, "fresh", None))
        if self.kwarg:
            entry_defs.append(Def(self.kwarg, None, "fresh", None))
        IN = {n.id: set() for n in g.nodes}
        OUT = {n.id: set() for n in g.nodes}
        OUT[g.entry.id] = set(entry_defs)
        work = list(g.nodes)
        while work:
            n = work.pop()
            if n is g.entry:
                new_out = OUT[n.id]
            else:
                i = set()
                for p, _ in n.pred:
                    i |= OUT[p.id]
                IN[n.id] = i
                ds = gen[n.id]
                if ds:
                    killed = {d.name for d in ds if d.kind != "aug"}
                    new_out = {d for d in i if d.name not in killed} | set(ds)
                else:
                    new_out = i
            if new_out != OUT[n.id] or n is g.entry:
                OUT[n.id] = new_out
                for s, _ in n.succ:
                    if s not in work:
                        work.append(s)
        self._rd = (IN, OUT)
        self._defs_by_id = {id(d): d for ds in gen.values() for d in ds}
        self.local_names = names | set(self.params) | ({self.vararg} if self.vararg else set()) | ({self.kwarg} if self.kwarg else set())
        return self._rd

    def defs_at(self, name, at_node):
        """definitions of ``name`` reaching the statement that contains ``at_node``"""
        IN, OUT = self._reaching()
        cn = self.cfg.node_of(at_node)
        if cn is None:
            # inside a nested function / comprehension not in the CFG: use every definition in the function
            return [d for s in OUT.values() for d in s if d.name == name]
        return [d for d in IN[cn.id] if d.name == name] if cn is not self.cfg.entry else [d for d in OUT[cn.id] if d.name == name]

    # ---- provenance ------------------------------------------------------------------------------------------------
    def prov(self, e, at=None, _depth=0, _seen=None):
        """set of root tags for expression ``e`` evaluated at statement ``at`` (default: where e sits)"""
        if at is None:
            at = e
        _seen = _seen or set()
        if _depth > 12:
            return {"unknown"}
        self._reaching()
        if isinstance(e, ast.Name):
            if e.id == self.selfname:
                return {"self"}
            comp = self._comp_binding(e)
            if comp is not None:
                return self._elem(self.prov(comp, at, _depth + 1, _seen))
            if e.id in self.local_names:
                out = set()
                ds = self.defs_at(e.id, at)
                if not ds:
                    return {"unknown"}
                for d in ds:
                    key = (id(d), )
                    if key in _seen:
                        continue
                    out |= self._def_prov(d, _depth, _seen | {key})
                return out or {"unknown"}
            # closure variable of an enclosing function?
            if ".<locals>." in self.fi.qual:
                return {"closure:" + e.id}
            return {f"global:{self.mod.name}.{e.id}"}
        if isinstance(e, ast.Attribute):
            d = dotted(e)
            if d:
                r = self.eng.prog.resolve_name(self.mod, d)
                if isinstance(r, (FuncInfo, ClassInfo, ModuleInfo)):
                    return {"fresh"}  # a function / class / module object, not data
            path = dotted(e)
            if path and path.count(".") >= 2 and path.split(".")[0] == self.selfname:
                # field-sensitive for paths below self (self.opts.exts): the last store to the same path in this function
                # before the use decides what object it is
                stores = [(st_.lineno, v_) for t_, v_, st_ in A.assignments(self.fn) if isinstance(t_, ast.Attribute) and dotted(t_) == path
                          and not isinstance(v_, ast.AugAssign) and st_.lineno <= getattr(at, "lineno", 10 ** 9)]
                if stores:
                    ln, v_ = max(stores, key=lambda x: x[0])
                    st_ = next(s3 for t3, v3, s3 in A.assignments(self.fn) if v3 is v_)
                    if (id(v_),) not in _seen:
                        return self.prov(v_, st_, _depth + 1, _seen | {(id(v_),)})
            base = self.prov(e.value, at, _depth + 1, _seen)
            out = set()
            for t in base:
                if t == "self":
                    out.add(self._self_tag(e.attr))
                elif t == "fresh":
                    out.add("fresh")
                else:
                    out.add(t)
            return out
        if isinstance(e, ast.Subscript):
            if isinstance(e.slice, ast.Slice):
                return {"fresh"}
            return self._elem(self.prov(e.value, at, _depth + 1, _seen))
        if isinstance(e, ast.Starred):
            return self.prov(e.value, at, _depth + 1, _seen)
        if isinstance(e, ast.NamedExpr):
            return self.prov(e.value, at, _depth + 1, _seen)
        if isinstance(e, ast.IfExp):
            return self.prov(e.body, at, _depth + 1, _seen) | self.prov(e.orelse, at, _depth + 1, _seen)
        if isinstance(e, ast.BoolOp):
            out = set()
            for v in e.values:
                out |= self.prov(v, at, _depth + 1, _seen)
            return out
        if isinstance(e, ast.Call):
            return self._call_prov(e, at, _depth, _seen)
        if isinstance(e, ast.Await):
            return {"unknown"}
        if isinstance(e, (ast.Yield, ast.YieldFrom)):
            return {"unknown"}
        return {"fresh"}

    def _self_tag(self, attr):
        """self:<attr> for instance state, class:<attr> when the attribute only exists at class level (one object
        shared by every instance and every call)"""
        K = self.fi.cls
        if K is not None:
            owner, node = self.eng.prog.lookup_attr(K, attr)
            if owner is not None and not isinstance(node, FuncInfo):
                inst = False
                for c in self.eng.prog.mro(K):
                    if not isinstance(c, ClassInfo):
                        continue
                    for m in c.methods.values():
                        ps = m.params()
                        if not ps:
                            continue
                        for t_, v_, st_ in A.assignments(m.node):
                            if A.self_attr(t_, ps[0]) == attr:
                                inst = True
                        for c_ in A.calls(m.node):
                            if (dotted(c_.func) or "") in ("sf", "object.__setattr__", "setattr") and len(c_.args) == 3 and A.const(c_.args[1]) == attr:
                                inst = True
                if not inst or any(ast.unparse(d) == "classmethod" for d in self.fn.decorator_list):
                    return "class:" + attr
        return "self:" + attr

    def _elem(self, tags):
        # an element of a fresh container is as fresh as we can tell without element tracking: keep "fresh",
        # elements of anything else stay rooted there
        return set(tags)

    def _comp_binding(self, name_node):
        """if the name is bound by an enclosing comprehension, the iterable expression"""
        p = getattr(name_node, "_parent", None)
        while p is not None and p is not self.fn:
            if isinstance(p, (ast.ListComp, ast.SetComp, ast.DictComp, ast.GeneratorExp)):
                for g in p.generators:
                    if name_node.id in A.assigned_names(g.target):
                        return g.iter
            p = getattr(p, "_parent", None)
        return None

    def _def_prov(self, d, _depth, _seen):
        if d.kind == "param":
            return {"param:" + d.name}
        if d.kind == "fresh":
            return {"fresh"}
        if d.kind == "opaque" or d.value is None:
            return {"fresh"}
        if d.kind == "aug":
            st = d.value
            # x += y : x keeps its identity for containers; provenance = what reached the statement
            prev = set()
            for dd in self.defs_at(d.name, st):
                if (id(dd),) not in _seen:
                    prev |= self._def_prov(dd, _depth + 1, _seen | {(id(dd),)})
            return prev or {"fresh"}
        if d.kind == "elem":
            return self._iter_elem_prov(d.value, d.stmt, _depth, _seen)
        return self.prov(d.value, d.stmt, _depth + 1, _seen)

    def _iter_elem_prov(self, it, at, _depth, _seen):
        """provenance of the elements produced by iterating / unpacking ``it``"""
        if isinstance(it, (ast.List, ast.Tuple, ast.Set)):
            out = set()
            for x in it.elts:
                out |= self.prov(x, at, _depth + 1, _seen)
            return out or {"fresh"}
        if isinstance(it, ast.Call):
            f = it.func
            if isinstance(f, ast.Attribute) and f.attr in ("items", "values", "keys", "iteritems", "itervalues"):
                return self.prov(f.value, at, _depth + 1, _seen)
            nm = A.call_name(it) or ""
            if nm.split(".")[-1] in ("enumerate", "zip", "sorted", "reversed", "iter", "list", "tuple", "chain",
                                     "iflatten_instance", "iflatten_func", "filter", "set", "frozenset"):
                out = set()
                for x in it.args:
                    out |= self._iter_elem_prov(x, at, _depth + 1, _seen)
                return out or {"fresh"}
        return self.prov(it, at, _depth + 1, _seen)

    def _bind_args(self, call, callee: FuncInfo, bound_self):
        """param name -> actual expression"""
        a = callee.node.args
        names = [x.arg for x in a.posonlyargs + a.args]
        if bound_self and names:
            names = names[1:]
        out = {}
        for i, arg in enumerate(call.args):
            if isinstance(arg, ast.Starred):
                break
            if i < len(names):
                out[names[i]] = arg
        for k in call.keywords:
            if k.arg:
                out[k.arg] = k.value
        return out

    def resolve_call(self, call):
        """-> (FuncInfo|ClassInfo|None, receiver expr|None, bound_self: bool)"""
        f = call.func
        prog = self.eng.prog
        if isinstance(f, ast.Name):
            if f.id in getattr(self, "local_names", ()) and f.id not in self.mod.funcs and f.id not in self.mod.classes:
                return None, None, False
            r = prog.resolve_name(self.mod, f.id)
            if isinstance(r, (FuncInfo, ClassInfo)):
                return r, None, False
            return None, None, False
        if isinstance(f, ast.Attribute):
            # self.method(...)
            if isinstance(f.value, ast.Name) and f.value.id == self.selfname and self.fi.cls is not None:
                owner, m = prog.lookup_attr(self.fi.cls, f.attr)
                if isinstance(m, FuncInfo):
                    return m, f.value, True
                return None, f.value, True
            d = dotted(f)
            if d:
                r = prog.resolve_name(self.mod, d)
                if isinstance(r, FuncInfo):
                    bound = r.cls is not None and False
                    return r, None, bound
                if isinstance(r, ClassInfo):
                    return r, None, False
            return None, f.value, True
        return None, None, False

    def _call_prov(self, call, at, _depth, _seen):
        f = call.func
        nm = A.call_name(call) or ""
        last = nm.split(".")[-1] if nm else (f.attr if isinstance(f, ast.Attribute) else "")
        if isinstance(f, ast.Name) and f.id in FRESH_BUILTINS and f.id not in self.local_names:
            return {"fresh"}
        if nm in COPY_FUNCS:
            return {"fresh"}
        callee, recv, bound = self.resolve_call(call)
        if isinstance(callee, ClassInfo):
            return {"fresh"}
        if isinstance(callee, FuncInfo):
            summ = self.eng.summary(callee)
            out = set()
            binding = self._bind_args(call, callee, bound)
            for t in summ["ret"]:
                if t.startswith("param:"):
                    p = t[6:]
                    if p in binding:
                        out |= self.prov(binding[p], at, _depth + 1, _seen)
                    else:
                        out.add("fresh")  # default value
                elif t == "self" or t.startswith("self:"):
                    if recv is not None:
                        rp = self.prov(recv, at, _depth + 1, _seen)
                        for r in rp:
                            out.add(("self:" + t[5:]) if (r == "self" and t.startswith("self:")) else r)
                    else:
                        out.add("unknown")
                else:
                    out.add(t)
            return out or {"fresh"}
        if isinstance(f, ast.Attribute):
            if f.attr in ELEMENT_GETTERS:
                return self._elem(self.prov(f.value, at, _depth + 1, _seen))
            if f.attr in FRESH_METHODS:
                return {"fresh"}
        if last[:1].isupper():
            return {"fresh"}  # constructor-looking name
        if last in FRESH_BUILTINS:
            return {"fresh"}
        return {"unknown"}

    # ---- data sources (what a value is computed *from*, through any operation) ---------------------------------------
    def _control_tests(self, stmt):
        """tests of the if / while / conditional-expression branches that enclose ``stmt`` inside this function"""
        out, child, p = [], stmt, getattr(stmt, "_parent", None)
        while p is not None and p is not self.fn:
            if isinstance(p, (ast.If, ast.While, ast.IfExp)) and child is not p.test:
                out.append(p.test)
            child, p = p, getattr(p, "_parent", None)
        return out

    def sources_filled(self, e, at=None):
        """sources_with_control(e) plus, for every local in ``e`` that is handed (itself, or one of its bound methods such as
        ``l.append``) to a call, the inputs of that call's other arguments: the callee may fill the container from them
        (``render(x, func, l.append)`` makes ``func`` an input of ``" ".join(l)``)."""
        out = self.sources_with_control(e, at)
        names = {n.id for n in ast.walk(e) if isinstance(n, ast.Name)}
        # one level of local aliasing: rendered = " ".join(l)
        for n in list(names):
            for d in self.defs_at(n, at if at is not None else e):
                if d.value is not None and d.kind == "assign":
                    names |= {x.id for x in ast.walk(d.value) if isinstance(x, ast.Name)}
        for c in A.calls(self.fn, into_nested=True):
            args = list(c.args) + [k.value for k in c.keywords]
            handed = [a for a in args if (isinstance(a, ast.Name) and a.id in names and a.id in self.local_names and a.id not in self.params) or (
                isinstance(a, ast.Attribute) and isinstance(a.value, ast.Name) and a.value.id in names and a.value.id in self.local_names and a.value.id not in self.params)]
            if handed:
                for a in args:
                    if a not in handed:
                        out |= self.sources(a, c)
        return out

    def sources_with_control(self, e, at=None):
        """sources(e) plus the inputs of every branch condition under which one of the definitions flowing into ``e``
        was made (``if invert: s = wrap(s)`` makes ``invert`` an input of ``s``)"""
        seen = set()
        out = self.sources(e, at, 0, seen)
        self._reaching()
        done = set()
        for _ in range(4):  # conditions whose own inputs were defined under further conditions
            grew = False
            for i in list(seen):
                d = self._defs_by_id.get(i)
                if d is None or d.stmt is None:
                    continue
                for t in self._control_tests(d.stmt):
                    if id(t) not in done:
                        done.add(id(t))
                        out |= self.sources(t, d.stmt, 0, seen)
                        grew = True
            if not grew:
                break
        return out

    def sources(self, e, at=None, _depth=0, _seen=None):
        """root tags of every input that flows into the value of ``e`` (slices, calls, formatting, arithmetic all
        propagate): param:<n>, self:<attr>, global:<mod>.<n>, closure:<n>.  Constants contribute nothing."""
        if at is None:
            at = e
        _seen = _seen if _seen is not None else set()
        self._reaching()
        out = set()
        if _depth > 14:
            return out
        for n in ast.walk(e):
            if isinstance(n, ast.Attribute) and isinstance(n.value, ast.Name) and n.value.id == self.selfname:
                out.add("self:" + n.attr)
            elif isinstance(n, ast.Name) and isinstance(n.ctx, ast.Load):
                if n.id == self.selfname:
                    continue
                if self._comp_binding(n) is not None:
                    continue
                if n.id in self.local_names:
                    for d in self.defs_at(n.id, at):
                        if id(d) in _seen:
                            continue
                        _seen.add(id(d))
                        if d.kind == "param":
                            out.add("param:" + d.name)
                        elif d.kind == "aug":
                            out |= self.sources(d.value.value, d.value, _depth + 1, _seen)
                            for dd in self.defs_at(d.name, d.value):
                                if id(dd) not in _seen:
                                    _seen.add(id(dd))
                                    if dd.kind == "param":
                                        out.add("param:" + dd.name)
                                    elif dd.value is not None and dd.kind != "aug":
                                        out |= self.sources(dd.value, dd.stmt, _depth + 1, _seen)
                        elif d.value is not None and d.stmt is not None:
                            out |= self.sources(d.value, d.stmt, _depth + 1, _seen)
                elif n.id not in FRESH_BUILTINS and not isinstance(getattr(n, "_parent", None), ast.Call) or (
                        isinstance(getattr(n, "_parent", None), ast.Call) and getattr(n, "_parent").func is not n):
                    if n.id not in self.local_names and n.id not in FRESH_BUILTINS:
                        out.add(f"global:{self.mod.name}.{n.id}")
        return out

    # ---- mutation sites --------------------------------------------------------------------------------------------
    def _container_evidence(self, name):
        """is ``name`` known to be a *mutable* container here?  (x += y rebinds for tuples / str / frozenset / int and
        only mutates lists / sets / dicts: without types, demand evidence of mutability)"""
        for n in A.body_walk(self.fn, into_nested=True):
            if isinstance(n, ast.Attribute) and isinstance(n.value, ast.Name) and n.value.id == name and n.attr in MUTATORS:
                return True
            if isinstance(n, ast.Subscript) and isinstance(n.value, ast.Name) and n.value.id == name and isinstance(n.ctx, (ast.Store, ast.Del)):
                return True
            if isinstance(n, (ast.Assign, ast.AnnAssign)) and getattr(n, "value", None) is not None:
                tg = n.targets if isinstance(n, ast.Assign) else [n.target]
                if any(isinstance(t, ast.Name) and t.id == name for t in tg):
                    v = n.value
                    if isinstance(v, (ast.List, ast.Set, ast.Dict, ast.ListComp, ast.SetComp, ast.DictComp)):
                        return True
                    if isinstance(v, ast.Call) and isinstance(v.func, ast.Name) and v.func.id in ("list", "set", "dict", "defaultdict", "OrderedDict", "deque", "bytearray"):
                        return True
                    if isinstance(v, ast.Name) and v.id != name and v.id in self.params and self._callers_pass_container(v.id):
                        return True  # an alias of a parameter that the module's own call sites bind to a list / set / dict
        if name in self.params and self._callers_pass_container(name):
            return True
        return False

    def _callers_pass_container(self, pname):
        """every call site of this function in its own module (direct, or bound with ``partial``) passes, for parameter
        ``pname``, a local that was built there as a list / set / dict literal or constructor call"""
        key = ("cpc", pname)
        cache = self.__dict__.setdefault("_cpc", {}) if hasattr(self, "__dict__") else {}
        if key in cache:
            return cache[key]
        fname = self.fn.name
        params = [p for p in self.params if p != self.selfname]
        if pname not in params:
            cache[key] = False
            return False
        idx = params.index(pname)
        verdicts = []
        for caller in self.mod.funcs.values():
            for c in ast.walk(caller.node):
                if not isinstance(c, ast.Call):
                    continue
                fn_txt = A.unparse(c.func)
                args = None
                if fn_txt.split(".")[-1] == fname:
                    args = list(c.args)
                elif fn_txt.split(".")[-1] == "partial" and c.args and A.unparse(c.args[0]).split(".")[-1] == fname:
                    args = list(c.args[1:])
                if args is None:
                    continue
                val = args[idx] if idx < len(args) and not any(isinstance(a, ast.Starred) for a in args[:idx + 1]) else next((k.value for k in c.keywords if k.arg == pname), None)
                if val is None:
                    continue
                ok = isinstance(val, (ast.List, ast.Set, ast.Dict, ast.ListComp, ast.SetComp, ast.DictComp))
                if isinstance(val, ast.Name):
                    ds = [v for t, v, _ in A.assignments(caller.node, val.id)]
                    ok = bool(ds) and all(isinstance(v, (ast.List, ast.Set, ast.Dict, ast.ListComp, ast.SetComp, ast.DictComp)) or (
                        isinstance(v, ast.Call) and isinstance(v.func, ast.Name) and v.func.id in ("list", "set", "dict", "defaultdict", "OrderedDict", "deque")) for v in ds)
                verdicts.append(ok)
        res = bool(verdicts) and all(verdicts)
        cache[key] = res
        return res

    def sites(self):
        if self._sites is not None:
            return self._sites
        self._reaching()
        out = []

        def is_class_object(e):
            """type(self) / self.__class__ / the enclosing class's own name (a local alias of one of these counts)"""
            if isinstance(e, ast.Call) and isinstance(e.func, ast.Name) and e.func.id == "type" and len(e.args) == 1 and isinstance(e.args[0], ast.Name) and e.args[0].id == self.selfname:
                return True
            if isinstance(e, ast.Attribute) and e.attr == "__class__" and isinstance(e.value, ast.Name) and e.value.id == self.selfname:
                return True
            if isinstance(e, ast.Name) and self.fi.cls is not None and e.id == self.fi.cls.name and e.id not in self.local_names:
                return True
            if isinstance(e, ast.Name) and e.id in self.local_names and e.id != self.selfname:
                vals = [v for t, v, _ in A.assignments(self.fn, e.id) if not isinstance(v, ast.AugAssign)]
                return bool(vals) and all(is_class_object(v) for v in vals)
            return False

        def add(node, how, target_expr, via=None):
            pv = self.prov(target_expr, node)
            if how.startswith("attr-") and is_class_object(target_expr) and not self.is_init:
                s0 = Site(node, how, A.unparse(target_expr), pv, via)
                pv = {"class:" + _attr_written(s0)}
            out.append(Site(node, how, A.unparse(target_expr), pv, via))

        for n in A.body_walk(self.fn, into_nested=True):
            if isinstance(n, (ast.Assign, ast.AugAssign, ast.AnnAssign, ast.Delete)):
                tgts = n.targets if isinstance(n, (ast.Assign, ast.Delete)) else [n.target]
                flat = []
                for t in tgts:
                    flat.extend(t.elts if isinstance(t, (ast.Tuple, ast.List)) else [t])
                for t in flat:
                    if isinstance(t, ast.Subscript):
                        add(n, "item-store" if not isinstance(n, ast.Delete) else "item-delete", t.value)
                    elif isinstance(t, ast.Attribute):
                        add(n, "attr-store" if not isinstance(n, ast.Delete) else "attr-delete", t.value)
                    elif isinstance(t, ast.Name) and isinstance(n, ast.AugAssign):
                        if isinstance(n.op, (ast.Add, ast.BitOr, ast.BitAnd, ast.Sub, ast.BitXor, ast.Mult)) and self._container_evidence(t.id):
                            # provenance of the object before the statement
                            pv = set()
                            for d in self.defs_at(t.id, n):
                                pv |= self._def_prov(d, 0, {(id(d),)})
                            out.append(Site(n, "inplace-op", t.id, pv or {"unknown"}))
            elif isinstance(n, ast.Call):
                f = n.func
                if isinstance(f, ast.Attribute) and f.attr in MUTATORS:
                    # str.pop etc. do not exist; dict.get is not a mutator; good enough
                    add(n, "method:" + f.attr, f.value)
                    continue
                if isinstance(f, ast.Name) and f.id in ("setattr", "delattr") and n.args:
                    add(n, "attr-store", n.args[0])
                    continue
                nm = A.call_name(n) or ""
                if nm in ("object.__setattr__", "sf", "object.__delattr__") and n.args:
                    add(n, "attr-store", n.args[0])
                    continue
                callee, recv, bound = self.resolve_call(n)
                if isinstance(callee, FuncInfo) and callee is not self.fi:
                    summ = self.eng.summary(callee)
                    if not summ["mut"]:
                        continue
                    binding = self._bind_args(n, callee, bound)
                    for t in sorted(summ["mut"]):
                        if t.startswith("param:"):
                            p = t[6:]
                            if p in binding:
                                add(n, "passed-to-mutating-param", binding[p], via=f"{callee.fq}({p})")
                        elif t.startswith("self:") and bound and recv is not None:
                            if isinstance(recv, ast.Name) and recv.id == self.selfname:
                                out.append(Site(n, "callee-mutates-self", "self." + t[5:], {t}, via=callee.fq))
                            else:
                                add(n, "callee-mutates-receiver", recv, via=callee.fq)
                        elif t.startswith(("global:", "cached:")):
                            out.append(Site(n, "callee-mutates-shared", t, {t}, via=callee.fq))
        self._sites = out
        return out

    def return_prov(self):
        out = set()
        gen = False
        for n in A.body_walk(self.fn):
            if isinstance(n, (ast.Yield, ast.YieldFrom)):
                gen = True
            if isinstance(n, ast.Return) and n.value is not None:
                out |= self.prov(n.value, n)
        if gen:
            return {"fresh"}
        return out or {"fresh"}


class Engine:
    def __init__(self, prog):
        self.prog = prog
        self._fx = {}
        self._summ = {}
        self._active = set()

    def fx(self, fi: FuncInfo) -> FuncEffects:
        k = fi.fq
        if k not in self._fx:
            self._fx[k] = FuncEffects(self, fi)
        return self._fx[k]

    def summary(self, fi: FuncInfo):
        """{'mut': root tags of non-fresh objects the function may mutate (attr stores on self excluded),
            'ret': provenance of the return value}"""
        k = fi.fq
        if k in self._summ:
            return self._summ[k]
        if k in self._active or len(self._active) > 6:
            return {"mut": set(), "ret": {"unknown"}}
        self._active.add(k)
        try:
            fx = self.fx(fi)
            mut = set()
            for s in fx.sites():
                for t in s.prov:
                    if t in ("fresh", "unknown"):
                        continue
                    if t == "self" and s.how.startswith("attr-"):
                        if fx.is_init:
                            continue
                        mut.add("self:" + _attr_written(s))
                        continue
                    if fx.is_init and (t == "self" or t.startswith("self:")):
                        continue  # the object under construction is fresh for the caller
                    mut.add(t)
            ret = {"cached:" + fi.fq} if _is_cached(fi.node) else fx.return_prov()
            if fx.is_init:
                ret = {"fresh"}
            res = {"mut": mut, "ret": ret}
        finally:
            self._active.discard(k)
        self._summ[k] = res
        return res


def _attr_written(site):
    n = site.node
    if isinstance(n, (ast.Assign, ast.AugAssign, ast.AnnAssign, ast.Delete)):
        tgts = n.targets if isinstance(n, (ast.Assign, ast.Delete)) else [n.target]
        for t in tgts:
            for x in (t.elts if isinstance(t, (ast.Tuple, ast.List)) else [t]):
                if isinstance(x, ast.Attribute):
                    return x.attr
    if isinstance(n, ast.Call) and len(n.args) >= 2:
        v = A.const(n.args[1])
        if isinstance(v, str):
            return v
    return "?"


_ENGINES = {}


def engine(prog) -> Engine:
    e = _ENGINES.get(id(prog))
    if e is None:
        e = _ENGINES[id(prog)] = Engine(prog)
    return e


def shared_writes(prog, fi: FuncInfo, ignore_self_attr_stores=True):
    """mutation sites of ``fi`` whose object is not provably fresh: (site, offending tags)"""
    eng = engine(prog)
    fx = eng.fx(fi)
    out = []
    for s in fx.sites():
        bad = set()
        for t in s.prov:
            if t in ("fresh", "unknown"):
                continue
            if t == "self" and s.how.startswith("attr-") and ignore_self_attr_stores:
                continue
            if fx.is_init and (t == "self" or t.startswith("self:")):
                continue
            bad.add(t)
        if bad:
            out.append((s, sorted(bad)))
    return out


ASSUMPTION = ("effect analysis: callees that cannot be resolved inside pkgcore (snakeoil, stdlib) are assumed not to "
              "modify their arguments; container elements are tracked only as 'element of <root>'")


def check_no_shared_writes(ctx, rule, fi: FuncInfo, allow=(), why="", ignore_self_attr_stores=True):
    """One obligation per function: every in-place write in ``fi`` goes to an object the call created itself.
    ``allow``: root-tag prefixes that are part of the function's contract (e.g. "param:orig" for an accumulator),
    each a (prefix, reason) pair or a bare prefix.  A finding's tag names the root written to (stable under renames of
    locals: roots are parameter / attribute / module names)."""
    allowed = [(a if isinstance(a, str) else a[0]) for a in allow]
    prog = ctx.program
    eng = engine(prog)
    fx = eng.fx(fi)
    sites = fx.sites()
    bad = []
    for s, tags in shared_writes(prog, fi, ignore_self_attr_stores):
        tags = [t for t in tags if not any(t == a or t.startswith(a) for a in allowed)]
        if tags:
            bad.append((s, tags))
    ctx.assume(ASSUMPTION)
    ctx.ob(rule, fi, f"{fi.qual}: all {len(sites)} in-place write(s) go to objects created by the call itself"
           + (f" (contract: {', '.join(allowed)})" if allowed else "") + (f" — {why}" if why else ""))
    for s, tags in bad:
        for t in tags:
            ctx.fail(rule, fi, "shared-write:" + t,
                     f"{fi.qual} modifies in place an object it did not create: `{s.target}` ({s.how}"
                     + (f", via {s.via}" if s.via else "") + f") is rooted at {t}; a later call / another holder of "
                     f"that object observes the change" + (f" — {why}" if why else ""), node=s.node)
    return not bad


def accumulator_guards(prog, fi: FuncInfo):
    """Parameters that the function (a) modifies in place and (b) replaces by a fresh object under a guard.
    Returns [(param, if-node, kind)] with kind 'identity' (``p is None``: only the absent argument is replaced) or
    'truthiness' (``not p``: the caller's *empty* container is silently replaced too, so the in-place contract is lost
    exactly when the accumulator starts empty)."""
    eng = engine(prog)
    fx = eng.fx(fi)
    mutated = set()
    for s in fx.sites():
        for t in s.prov:
            if t.startswith("param:"):
                mutated.add(t[6:])
    out = []
    for n in A.body_walk(fi.node):
        if not isinstance(n, ast.If):
            continue
        t = n.test
        kind = pname = None
        if isinstance(t, ast.Compare) and len(t.ops) == 1 and isinstance(t.ops[0], ast.Is) and isinstance(t.left, ast.Name) \
                and isinstance(t.comparators[0], ast.Constant) and t.comparators[0].value is None:
            kind, pname = "identity", t.left.id
        elif isinstance(t, ast.UnaryOp) and isinstance(t.op, ast.Not) and isinstance(t.operand, ast.Name):
            kind, pname = "truthiness", t.operand.id
        if pname is None or pname not in fx.params:
            continue
        rebinds = any(isinstance(st, ast.Assign) and any(isinstance(x, ast.Name) and x.id == pname for x in st.targets) for st in n.body)
        if rebinds:
            out.append((pname, n, kind, pname in mutated))
    return out

