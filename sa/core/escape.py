"""Objects a generator has handed out and still modifies.

A generator that yields a list (directly, or inside a constructor call) and later appends to *that same list* changes a
result its caller already holds.  Consumers that take one result at a time never notice; ``list(gen)`` does.  The
typical way in: an alias kept across iterations (``previous = keywords`` ... ``keywords = previous; keywords += extra``).

Decided by a may-alias dataflow over the statement CFG.  Abstract objects are (creating statement, generation):
generation 0 is the object made by the latest execution of the statement, generation 1 stands for all earlier ones (so
a loop that re-creates its list every turn does not confuse old and new).  Variables map to sets of abstract objects,
``a = b`` copies the set, yielding marks the objects of the handed-out names as escaped, and an in-place mutation whose
base variable may denote an escaped object is reported."""
from __future__ import annotations

import ast

from . import astutil as A
from . import effects
from .cfg import cfg_of
from .model import FuncInfo

COPIERS = {"list", "tuple", "set", "frozenset", "sorted", "dict", "str", "len", "sum", "any", "all", "min", "max", "bool", "int", "repr", "iter"}


def handed_out(e):
    """names whose object itself is part of the yielded value"""
    out = set()
    if isinstance(e, ast.Name):
        out.add(e.id)
    elif isinstance(e, (ast.Tuple, ast.List, ast.Set)):
        for x in e.elts:
            out |= handed_out(x)
    elif isinstance(e, ast.Dict):
        for x in e.values:
            out |= handed_out(x)
    elif isinstance(e, ast.Starred):
        out |= handed_out(e.value)
    elif isinstance(e, ast.Call):
        f = e.func
        nm = f.id if isinstance(f, ast.Name) else (f.attr if isinstance(f, ast.Attribute) else "")
        if nm in COPIERS or nm in ("copy", "deepcopy", "join", "format"):
            return out
        for x in list(e.args) + [k.value for k in e.keywords]:
            out |= handed_out(x)
    elif isinstance(e, (ast.IfExp,)):
        out |= handed_out(e.body) | handed_out(e.orelse)
    return out


def findings(prog, fi: FuncInfo):
    """[(yield node, mutation effects.Site, variable)]"""
    fn = fi.node
    if not any(isinstance(n, ast.Yield) for n in A.body_walk(fn)):
        return []
    fx = effects.engine(prog).fx(fi)
    fx._reaching()
    g = cfg_of(fn)
    sites_by_node = {}
    for s in fx.sites():
        if s.how.startswith(("attr-", "passed-", "callee-")):
            continue
        cn = g.node_of(s.node)
        if cn is not None:
            sites_by_node.setdefault(cn.id, []).append(s)

    def base_name(site):
        t = site.node
        e = None
        if isinstance(t, ast.Call) and isinstance(t.func, ast.Attribute):
            e = t.func.value
        elif isinstance(t, (ast.Assign, ast.AugAssign, ast.Delete)):
            tg = t.targets if isinstance(t, (ast.Assign, ast.Delete)) else [t.target]
            for x in tg:
                if isinstance(x, (ast.Subscript, ast.Attribute)):
                    e = x.value
                elif isinstance(x, ast.Name):
                    e = x
        while isinstance(e, (ast.Attribute, ast.Subscript)):
            e = e.value
        return e.id if isinstance(e, ast.Name) else None

    # state: var -> frozenset of (site id, generation, escaped?)   (escapedness travels with the binding, so a join
    # cannot combine "escaped on one path" with "still bound on another")
    def age(vars_, sid):
        return {v: frozenset(((s_, 1, e_) if s_ == sid else (s_, g_, e_)) for s_, g_, e_ in objs) for v, objs in vars_.items()}

    IN = {n.id: None for n in g.nodes}
    IN[g.entry.id] = {p: frozenset({(("param", p), 0, False)}) for p in fx.params}
    found = {}
    ywhere = {}
    work = [g.entry]
    rounds = 0
    while work and rounds < 20000:
        rounds += 1
        n = work.pop()
        st = IN[n.id]
        if st is None:
            continue
        vars_ = dict(st)
        a = n.ast
        if a is not None:
            # mutations first see the state before this statement's own bindings (x += y mutates the old x)
            for s in sites_by_node.get(n.id, ()):
                b = base_name(s)
                if b is None:
                    continue
                hit = [o for o in vars_.get(b, frozenset()) if o[2]]
                if hit:
                    found.setdefault((id(s.node), b), (s, b, hit))
            # escapes in this statement
            for h in effects._header_exprs(a):
                for y in ast.walk(h):
                    if isinstance(y, ast.Yield) and y.value is not None:
                        marked = set()
                        for nm in handed_out(y.value):
                            for o in vars_.get(nm, frozenset()):
                                marked.add((o[0], o[1]))
                                ywhere.setdefault((o[0], o[1]), y)
                        if marked:
                            vars_ = {v: frozenset(((s_, g_, True) if (s_, g_) in marked else (s_, g_, e_)) for s_, g_, e_ in objs) for v, objs in vars_.items()}
            # bindings
            for d in effects._stmt_defs(a):
                if d.kind == "aug":
                    continue
                if d.kind == "assign" and isinstance(d.value, ast.Name) and d.value.id in vars_:
                    vars_[d.name] = vars_[d.value.id]
                elif d.kind == "assign" and isinstance(d.value, (ast.IfExp, ast.BoolOp)):
                    parts = [d.value.body, d.value.orelse] if isinstance(d.value, ast.IfExp) else d.value.values
                    objs = set()
                    sid = (n.id, d.name)
                    made = False
                    for p_ in parts:
                        if isinstance(p_, ast.Name) and p_.id in vars_:
                            objs |= set(vars_[p_.id])
                        elif not made:
                            made = True
                            vars_ = age(vars_, sid)
                            objs = {((s_, 1, e_) if s_ == sid else (s_, g_, e_)) for s_, g_, e_ in objs}
                            objs.add((sid, 0, False))
                    vars_[d.name] = frozenset(objs)
                else:
                    sid = (n.id, d.name)
                    vars_ = age(vars_, sid)
                    vars_[d.name] = frozenset({(sid, 0, False)})
        for s_, _ in n.succ:
            old = IN[s_.id]
            if old is None:
                IN[s_.id] = dict(vars_)
                work.append(s_)
            else:
                mv = dict(old)
                changed = False
                for k, v in vars_.items():
                    u = mv.get(k, frozenset()) | v
                    if u != mv.get(k):
                        mv[k] = u
                        changed = True
                if changed:
                    IN[s_.id] = mv
                    work.append(s_)
    out = []
    for k, v in found.items():
        s, b, hit = v
        ynode = None
        for o in hit:
            ynode = ywhere.get((o[0], o[1]), ynode)
        out.append((ynode, s, b))
    return out
