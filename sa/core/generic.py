"""Generic, property-independent structural rules that a property's rule module can switch on for its anchored code.

Each is a necessary condition of "the result is a function of the stated inputs" style properties and is decided from
the source alone:
  pure(...)          the named functions write in place only to objects they created (effects.py)
  arg_binding(...)   no optional flag is bound, positionally, to a different optional parameter of the callee
  late_binding(...)  no closure created in a loop survives its iteration while reading the loop's variables
Findings are keyed by construct and root / parameter names, never by line."""
from __future__ import annotations

from . import argbind, effects, latebind


def _funcs_of(prog, files):
    for m in prog.modules.values():
        if m.relpath in files:
            yield from m.funcs.values()


def pure(ctx, rule, specs):
    """specs: iterable of (module, qualname, allow, why); allow = root-tag prefixes that are the function's contract"""
    ok = True
    for modname, qual, allow, why in specs:
        fi = ctx.program.func_opt(modname, qual)
        ctx.require(fi is not None, f"{modname}:{qual} not found (effect rule {rule})")
        ok &= effects.check_no_shared_writes(ctx, rule, fi, allow=allow, why=why)
    return ok


def arg_binding(ctx, rule, files):
    files = set(files)
    argbind.STATS.clear()
    nfun, bad = 0, []
    for fi in _funcs_of(ctx.program, files):
        if ".<locals>." in fi.qual:
            continue
        nfun += 1
        for call, i, nm, lands, callee in argbind.mismatches(ctx.program, fi):
            bad.append((fi, call, i, nm, lands, callee))
    n = argbind.STATS.get("resolved", 0)
    ctx.ob(rule, "argument binding", f"{n} call sites with a resolved pkgcore callee in {nfun} functions of {len(files)} file(s): "
           "no variable named like an optional parameter of the callee is passed positionally into a different optional parameter",
           file=sorted(files)[0] if files else "")
    for fi, call, i, nm, lands, callee in bad:
        ctx.fail(rule, fi, f"flag-shift:{nm}->{lands}:{callee.split(':')[-1]}",
                 f"{fi.qual} passes `{nm}` as positional argument #{i + 1} of {callee}, where it binds to the optional "
                 f"parameter `{lands}`; the callee has its own optional parameter `{nm}`, which keeps its default", node=call)
    return n


def late_binding(ctx, rule, files):
    files = set(files)
    nloops = 0
    import ast
    for fi in _funcs_of(ctx.program, files):
        for n in ast.walk(fi.node):
            if isinstance(n, (ast.For, ast.While)):
                nloops += 1
        for cl, loop, names, how in latebind.findings(fi.node):
            ctx.fail(rule, fi, f"late-binding:{','.join(names)}",
                     f"{fi.qual}: a {type(cl).__name__} created in the loop at line {loop.lineno} reads the loop variable(s) "
                     f"{', '.join(names)} when it runs, and it outlives the iteration ({how}): all survivors see the last "
                     f"iteration's value", node=cl)
    ctx.ob(rule, "closures in loops", f"{nloops} loops in {len(files)} file(s): no closure that reads a loop variable lazily survives its iteration",
           file=sorted(files)[0] if files else "")
    return nloops


def accumulator_guard(ctx, rule, modname, qual, param):
    """The documented in-place accumulator ``param`` of modname:qual is replaced by a fresh object only when it was
    not supplied (``is None``); a truthiness guard also replaces the caller's *empty* accumulator, and whoever relies
    on the in-place update (ignoring the return value) then keeps an empty set."""
    fi = ctx.program.func_opt(modname, qual)
    ctx.require(fi is not None, f"{modname}:{qual} not found")
    gs = [g for g in effects.accumulator_guards(ctx.program, fi) if g[0] == param]
    ctx.check(rule, fi, bool(gs) and all(g[3] for g in gs), f"accumulator:{param}:present",
              f"{qual}: `{param}` is written in place and defaulted under a guard",
              f"{qual}: parameter `{param}` is no longer an in-place accumulator with a default guard (callers that ignore the return value rely on it)")
    for p, node, kind, mut in gs:
        ctx.check(rule, fi, kind == "identity", f"accumulator:{param}:guard",
                  f"{qual}: `{param}` is replaced by a fresh object only when it is None",
                  f"{qual}: `{param}` is replaced whenever it is falsy: a caller-supplied EMPTY accumulator is silently swapped for a private one, "
                  f"so its in-place expansion is lost exactly when it starts empty", node=node)


def no_shared_default_writes(ctx, rule, files, allow=()):
    """No function in ``files`` writes in place to a class-level object or to a value handed out by a memoising helper:
    such an object is one per process, so the write is seen by every later call and every other instance (a `-A`
    extension list that grows with every dohtml call, an engine table that keeps the first package's contents)."""
    files = set(files)
    allowed = set(allow)
    n = 0
    for fi in _funcs_of(ctx.program, files):
        n += 1
        for s, tags in effects.shared_writes(ctx.program, fi):
            for t in tags:
                if not t.startswith(("class:", "cached:")):
                    continue
                if (fi.qual, t) in allowed or t in allowed:
                    continue
                ctx.fail(rule, fi, "process-wide-write:" + t,
                         f"{fi.qual} modifies `{s.target}` in place ({s.how}); that object is {('the class attribute ' + t[6:]) if t.startswith('class:') else ('the memoised result of ' + t[7:])}, "
                         f"shared by every instance and every later call: the first use changes what all following ones start from", node=s.node)
    ctx.assume(effects.ASSUMPTION)
    ctx.ob(rule, "process-wide objects", f"{n} functions in {len(files)} file(s): no in-place write to a class-level attribute or a memoised value",
           file=sorted(files)[0] if files else "")
    return n


def partial_bound_writes(ctx, rule, files):
    """``partial(f, x)`` fixes one object ``x`` for every later call of the bound callable; if ``f`` modifies that
    parameter in place, each call starts from what the previous one left (a per-package list that grows with every
    package looked at).  Checked for every ``partial`` in ``files`` whose target resolves to a function of the same module;
    an object the binder goes on to read itself is an out-parameter (the calls are meant to fill it) and is left alone."""
    import ast
    from . import astutil as A
    files = set(files)
    n = 0
    for fi in _funcs_of(ctx.program, files):
        for c in ast.walk(fi.node):
            if not (isinstance(c, ast.Call) and A.unparse(c.func).split(".")[-1] == "partial" and c.args):
                continue
            tgt = c.args[0]
            callee = None
            if isinstance(tgt, ast.Attribute) and isinstance(tgt.value, ast.Name) and fi.cls is not None and fi.params() and tgt.value.id == fi.params()[0]:
                callee = ctx.program.lookup_attr(fi.cls, tgt.attr)[1]
            elif isinstance(tgt, ast.Name):
                callee = ctx.program.resolve_name(fi.module, tgt.id)
            if not (hasattr(callee, "node") and isinstance(callee.node, (ast.FunctionDef, ast.AsyncFunctionDef)) and hasattr(callee, "params")):
                continue
            ps = callee.params()
            if callee.cls is not None and isinstance(tgt, ast.Attribute) and ps:
                ps = ps[1:]
            bound = dict(zip(ps, c.args[1:]))
            bound.update({k.arg: k.value for k in c.keywords if k.arg})
            # an out-parameter: the binder itself reads the object after handing it out (it collects what the calls add)
            bound = {k: v for k, v in bound.items() if not (isinstance(v, ast.Name) and any(
                isinstance(x, ast.Name) and x.id == v.id and isinstance(x.ctx, ast.Load) and x.lineno > c.end_lineno for x in ast.walk(fi.node)))}
            if not bound:
                continue
            n += 1
            for s, tags in effects.shared_writes(ctx.program, callee):
                for t in tags:
                    if t.startswith("param:") and t[6:] in bound:
                        ctx.fail(rule, callee, f"partial-bound-write:{t[6:]}",
                                 f"{callee.qual} modifies its parameter `{t[6:]}` in place (`{s.target}`, {s.how}), and {fi.qual} binds that parameter once with "
                                 f"`{A.unparse(c)[:70]}`: every call of the bound callable sees what the earlier calls added", node=s.node)
    ctx.ob(rule, "partial-bound parameters", f"{n} partial() bindings of pkgcore functions in {len(files)} file(s): no bound parameter is modified in place by its function",
           file=sorted(files)[0] if files else "")
    return n


def single_pass(ctx, rule, files):
    """no generator / map / filter object is consumed twice on one path (the second consumer would see nothing)"""
    from . import iterreuse
    files = set(files)
    n = 0
    for fi in _funcs_of(ctx.program, files):
        n += 1
        for name, d, u1, u2, what in iterreuse.findings(ctx.program, fi):
            ctx.fail(rule, fi, f"consumed-twice:{fi.name}",
                     f"{fi.qual}: `{name}` is {what} (line {d.lineno}); it is consumed at line {u1.lineno} and again at line {u2.lineno} on the same path: "
                     f"the second consumer gets nothing", node=u2)
    ctx.ob(rule, "single-pass iterables", f"{n} functions in {len(files)} file(s): no single-pass iterable is consumed twice on one path", file=sorted(files)[0] if files else "")
    return n


def format_templates(ctx, rule, files):
    """no call builds a %-format template out of data (f-string with a %-directive plus further arguments)"""
    from . import fmtmix
    files = set(files)
    n = 0
    for fi in _funcs_of(ctx.program, files):
        if ".<locals>." in fi.qual:
            continue
        n += 1
        for call, vals in fmtmix.findings(fi.node):
            ctx.fail(rule, fi, f"data-in-format-template:{fi.name}",
                     f"{fi.qual}: `{A_unparse(call.func) if hasattr(call, 'func') else 'the % operator'}` receives an f-string that interpolates {vals} AND carries a %-directive for its further arguments: "
                     f"a '%' in the interpolated value is read as a directive and formatting raises (swallowed by suppress_exceptions callers: the action is skipped)", node=call)
    ctx.ob(rule, "format templates", f"{n} functions in {len(files)} file(s): no %-template is assembled from data", file=sorted(files)[0] if files else "")
    return n


def A_unparse(n):
    import ast
    try:
        return ast.unparse(n)
    except Exception:
        return "?"


# ---- the generic pack, run for every property on the Python files its anchors name --------------------------------------
REGISTRIES = {
    ("EAPI.register", "class:known_eapis"): "the EAPI registry: registering IS the class-level write",
    ("EAPI.register", "class:unknown_eapis"): "registry of placeholder EAPIs, same",
    ("ParseEclassDoc.__init_subclass__", "class:blocks"): "doc-block parser registry filled at class creation",
    ("resolver_stack.pop_frame", "class:parent"): "frame.parent is per-frame state (attribute of a slot object), mis-tagged as class level",
}
_PROPS = None


def anchor_files(prop):
    global _PROPS
    if _PROPS is None:
        import json, os
        here = os.path.dirname(os.path.dirname(os.path.dirname(os.path.abspath(__file__))))
        _PROPS = {}
        for line in open(os.path.join(here, "properties.jsonl")):
            p = json.loads(line)
            _PROPS[p["id"]] = [f for f in p["anchors"]["files"] if f.endswith(".py")]
    return _PROPS.get(prop, [])


def _anchor_files_all(prop):
    import json, os
    here = os.path.dirname(os.path.dirname(os.path.dirname(os.path.abspath(__file__))))
    for line in open(os.path.join(here, "properties.jsonl")):
        p = json.loads(line)
        if p["id"] == prop:
            return list(p["anchors"]["files"])
    return []


# files a property's behaviour runs through although its anchors do not list them (the pack is silent on them today)
EXTRA_FILES = {
    "C07": ["src/pkgcore/restrictions/boolean.py", "src/pkgcore/ebuild/conditionals.py", "src/pkgcore/ebuild/restricts.py"],
    "C08": ["src/pkgcore/restrictions/boolean.py", "src/pkgcore/ebuild/cpv.py"],
    "C16": ["src/pkgcore/resolver/state.py", "src/pkgcore/repository/misc.py"],
    "C14": ["src/pkgcore/ebuild/conditionals.py"],
}


def hygiene(ctx):
    """Rule G: structural hazards that break "the result depends on the stated inputs only" wherever they occur —
    shifted optional flags, closures outliving their loop iteration, single-pass iterables consumed twice, %-templates
    assembled from data, in-place writes to class-level or memoised objects, generators that modify what they already yielded, memo keys that are
    projections, unchecked child processes, and the exact lints of lints.py (duplicated operands, prefix removal by strip(),
    shared mutable defaults, memoised mutable results, cloned sibling bodies, module-level alias writes, catch-all handlers
    around a loop, write-open without truncation).  Each is decided from the source; on the
    tree as it stands none occurs in any anchored file, so every finding is new."""
    # every analysis of the pack expects zero findings on today's tree: its positive example must still match
    from . import lint_selftest
    n_ex, fails = lint_selftest.run_all()
    ctx.require(not fails, "generic pack self-test: " + "; ".join(fails))
    ctx.ob("G", "self-test", f"{n_ex} analyses of the generic pack each flag their positive example and leave the repaired twin alone (examples are parsed, not run)", file="sa/core/lint_selftest.py")
    bash_scope(ctx, "G")
    files = [f for f in anchor_files(ctx.prop) + EXTRA_FILES.get(ctx.prop, []) if f in ctx.program.by_rel]
    files = list(dict.fromkeys(files))
    if not files:
        return
    # each analysis runs on its own: a crash in one (source it was not written for) must not hide what the others report
    from .report import AnalysisError
    crashed = []
    for f, kw in ((arg_binding, {}), (late_binding, {}), (single_pass, {}), (format_templates, {}), (no_shared_default_writes, {"allow": set(REGISTRIES)}),
                  (yielded_then_mutated, {}), (memo_keys, {}), (child_status, {}), (classic_slips, {}), (partial_bound_writes, {})):
        try:
            f(ctx, "G", files, **kw)
        except AnalysisError:
            raise
        except Exception as e:  # noqa: BLE001
            crashed.append(f"{f.__name__}: {type(e).__name__}: {e}")
    ctx.require(not crashed, "generic pack: " + "; ".join(crashed))


def publication(ctx, rule, modname, qual, live, what):
    """Publishing by rename is one step.  In modname:qual, for every ``rename(tmp, X)`` whose destination is computed from
    the *live* location (``live``: source tags, e.g. {"self:install_path"}):
      * nothing deletes X on a path that leads to the rename (else there is a window with neither old nor new entry);
      * nothing writes or creates anything below X after the rename (else a crash leaves a listed but incomplete entry).
    Sites in resolved callees count (fsfx summaries)."""
    from . import fsfx
    from .cfg import cfg_of
    fi = ctx.program.func_opt(modname, qual)
    ctx.require(fi is not None, f"{modname}:{qual} not found")
    eng = fsfx.engine(ctx.program)
    sites = eng.sites(fi)
    live = set(live)
    renames = [s for s in sites if s.op == "rename" and (s.srcs & live)]
    ctx.check(rule, fi, bool(renames), f"publishes-by-rename:{qual}", f"{qual} publishes {what} with a rename onto the live location",
              f"{qual} no longer renames a finished temporary onto the live location ({sorted(live)}): {what} is not published atomically")
    g = cfg_of(fi.node)
    import ast as _ast
    for r in renames:
        callee = _ast.unparse(r.node.func) if isinstance(r.node, _ast.Call) and r.via is None else ""
        ctx.check(rule, fi, not callee.endswith("move"), f"publishes-with-move:{qual}",
                  f"{qual}: the live location is replaced by rename(2) (os.rename / os.replace)",
                  f"{qual} publishes with `{callee}`: shutil.move is a rename only on one filesystem and only when the destination is not an existing directory — otherwise it "
                  f"copies over the live {what} in place (a crash leaves it truncated) or moves the new tree INTO the old one", node=r.node)
        rn = g.node_of(r.node)
        for s in sites:
            if s is r or not (s.srcs & live):
                continue
            sn = g.node_of(s.node)
            if sn is None or rn is None:
                continue
            if s.op in ("write", "create", "meta") and s.via is None and _may_name(ctx.program, fi, s, r):
                ctx.fail(rule, fi, f"published-path-written-in-place:{qual}",
                         f"{qual}: `{_ast.unparse(s.node)[:60]}` (line {s.node.lineno}) can operate on the very path the rename publishes to (`{r.path}`) instead of the temporary: "
                         f"readers see {what} while it is being written, and a crash leaves it truncated", node=s.node)
            if s.op == "delete" and s.path == r.path and (rn in g.reach([sn]) or sn is rn):
                ctx.fail(rule, fi, f"live-entry-removed-before-rename:{qual}",
                         f"{qual} deletes `{s.path}` (line {s.node.lineno}{', via ' + s.via if s.via else ''}) and only then renames the new data onto it: between the two steps neither the "
                         f"old nor the new {what} exists, and a crash or a failing rename loses both", node=s.node)
            if s.op in ("write", "create") and sn in g.reach([rn]) and sn is not rn:
                ctx.fail(rule, fi, f"written-after-publication:{qual}",
                         f"{qual} still writes `{s.path}` (line {s.node.lineno}{', via ' + s.via if s.via else ''}) after the rename that made {what} visible: a crash in between leaves a listed "
                         f"entry that lacks that file", node=s.node)
    return len(renames)


def _may_name(prog, fi, site, ren):
    """can the path expression of ``site`` evaluate to the rename's destination?  (same text with the same reaching
    definitions is not enough to tell, so only *aliases* are followed: the site's path is a local one of whose reaching
    definitions is the destination's name, or the expression the destination was defined from)"""
    import ast
    from . import astutil as A
    if site.path == ren.path:
        # the same local: only a hit when some definition reaching the site differs from those reaching the rename's source
        return ren.src_path is not None and site.path != ren.src_path
    fx = effects.engine(prog).fx(fi)
    try:
        pe = ast.parse(site.path, mode="eval").body
        de = ast.parse(ren.path, mode="eval").body
    except SyntaxError:
        return False
    if not isinstance(pe, ast.Name):
        return False
    dest_vals = {ren.path}
    if isinstance(de, ast.Name):
        dest_vals |= {A.unparse(v) for t, v, st in A.assignments(fi.node, de.id)}
    for d in fx.defs_at(pe.id, site.node):
        if d.value is not None and d.kind == "assign" and A.unparse(d.value) in dest_vals:
            return True
    return False


def staged_publication_class(ctx, rule, modname, clsname, what):
    """A class that stages under ``self.<S>`` and publishes with ``os.rename(self.<S>, self.<D>)``: in all of its methods the
    only filesystem operation that may name the published path D is that rename — no open-for-write, create, chmod or
    delete (a failure clean-up that unlinks D removes the *previous* good copy).  D is recognised by value: ``self.D``, the
    local assigned to it, and that local's defining expression."""
    import ast
    from . import astutil as A
    from . import fsfx
    K = ctx.program.cls(modname, clsname)
    ren = None
    for m in K.methods.values():
        for c in A.calls(m.node):
            if A.unparse(c.func) in ("os.rename", "os.replace", "shutil.move") and len(c.args) == 2 and m.params():
                s_, d_ = A.self_attr(c.args[0], m.params()[0]), A.self_attr(c.args[1], m.params()[0])
                if s_ and d_:
                    ren = (m, c, s_, d_)
    ctx.require(ren is not None, f"{modname}:{clsname}: no os.rename(self.<staged>, self.<published>) found")
    _, rcall, S, D = ren
    ctx.check(rule, ren[0], A.unparse(rcall.func) != "shutil.move", f"publishes-with-move:{clsname}", f"{clsname}.{ren[0].name} publishes with rename(2)",
              f"{clsname}.{ren[0].name} publishes with `shutil.move`: that is a rename only on one filesystem and only when the destination is not an existing directory — otherwise it copies "
              f"over the live {what} in place (a crash leaves it truncated)", node=rcall)
    eng = fsfx.engine(ctx.program)
    n = 0
    for m in K.methods.values():
        if not m.params():
            continue
        me = m.params()[0]
        vals = {S: {f"{me}.{S}"}, D: {f"{me}.{D}"}}
        for t, v, st in A.assignments(m.node):
            targets = t.elts if isinstance(t, ast.Tuple) else [t]
            vs = v.elts if isinstance(t, ast.Tuple) and isinstance(v, ast.Tuple) and len(v.elts) == len(targets) else [v] * len(targets)
            for tt, vv in zip(targets, vs):
                a = A.self_attr(tt, me)
                if a in vals:
                    vals[a].add(A.unparse(vv))
                    if isinstance(vv, ast.Name):
                        for _t, dv, _s in A.assignments(m.node, vv.id):
                            vals[a].add(A.unparse(dv))
        live = vals[D] - vals[S]
        for s in eng.direct(m):
            if s.node is rcall:
                continue
            n += 1
            ptxt = {s.path}
            try:
                pe = ast.parse(s.path, mode="eval").body
                if isinstance(pe, ast.Name):
                    ptxt |= {A.unparse(dv) for _t, dv, _s in A.assignments(m.node, pe.id)}
            except SyntaxError:
                pass
            if ptxt & live and s.op in ("write", "create", "delete", "meta", "rename"):
                ctx.fail(rule, m, f"published-path-touched:{s.op}", f"{clsname}.{m.name}: `{A.unparse(s.node)[:60]}` ({s.op}) names the published path (`self.{D}`) rather than the staged one "
                         f"(`self.{S}`): {what} that readers see is only ever to change by the rename in {ren[0].name}"
                         + (" — removing it on failure deletes the previous good copy" if s.op == "delete" else ""), node=s.node)
    ctx.ob(rule, K, f"{clsname}: {n} filesystem operations in its methods, none but the rename names the published path self.{D}")
    return n


def per_item_isolation(ctx, rule, modname, qual, item_call, what):
    """One bad item must not end the run for the rest: in modname:qual the call that processes one item (``item_call``:
    predicate on a Call node, or a callee name) sits inside a ``try`` that is itself inside the item loop — so the
    handler resumes with the next item.  A ``try`` hoisted around the loop ends the loop at the first failure."""
    import ast
    from . import astutil as A
    fi = ctx.program.func_opt(modname, qual)
    ctx.require(fi is not None, f"{modname}:{qual} not found")
    pred = item_call if callable(item_call) else (lambda c: (A.call_name(c) or A.call_attr(c) or "").split(".")[-1] == item_call)
    calls = [c for c in A.calls(fi.node) if pred(c)]
    ctx.require(calls, f"{qual}: the per-item call not found")
    for c in calls:
        chain = list(A.parents(c))
        tries = [p for p in chain if isinstance(p, ast.Try) and any(A.contains_node(s, c) or s is c for s in p.body) and p.handlers]
        loops = [p for p in chain if isinstance(p, (ast.For, ast.While))]
        ok = bool(tries) and bool(loops) and chain.index(tries[0]) < chain.index(loops[0])
        ctx.check(rule, fi, ok, f"per-item-try:{qual}",
                  f"{qual}: a failure while handling one {what} is caught inside the loop; the loop goes on with the next",
                  f"{qual}: the exception handler around `{A.unparse(c)[:50]}` is not inside the {what} loop"
                  + (" (the try encloses the loop)" if tries and loops else "") + f": the first {what} that fails ends the loop, and every {what} after it is silently skipped", node=c)


def yielded_then_mutated(ctx, rule, files):
    """no generator modifies in place an object it has already yielded (or passed into a yielded object)"""
    from . import escape
    files = set(files)
    n = 0
    for fi in _funcs_of(ctx.program, files):
        n += 1
        for y, s, var in escape.findings(ctx.program, fi):
            ctx.fail(rule, fi, f"yielded-then-mutated:{fi.name}",
                     f"{fi.qual}: `{s.target}` ({s.how}, line {s.line}) may be the very object already handed out by the `yield` at line {getattr(y, 'lineno', '?')}: "
                     f"a caller that collected the earlier results (list(...)) sees that result change afterwards", node=s.node)
    ctx.ob(rule, "generators", f"{n} functions in {len(files)} file(s): no generator mutates an object it has already yielded", file=sorted(files)[0] if files else "")
    return n


def memo_keys(ctx, rule, files):
    """no memo is keyed by a projection (x.attr, x[i]) of an argument the memoised call receives whole"""
    from . import memokey
    files = set(files)
    n = 0
    for fi in _funcs_of(ctx.program, files):
        n += 1
        for node, cont, key, arg, proj in memokey.findings(fi.node):
            if proj is None:
                continue
            ctx.fail(rule, fi, f"memo-key-projection:{arg}",
                     f"{fi.qual}: results are remembered in `{cont}` under `{key}`, but the remembered call receives `{arg}` itself; `{proj}` identifies less than `{arg}`, "
                     f"so a different `{arg}` with the same `{proj}` is served the first one's result", node=node)
        if ".<locals>." not in fi.qual:
            for node, attr_, par in memokey.attr_memo_param_omitted(effects.engine(ctx.program).fx(fi)):
                ctx.fail(rule, fi, f"memo-slot-omits:{par}",
                         f"{fi.qual}: the result is remembered in the single slot `{attr_}` (returned as is when already set), but what is stored depends on the parameter `{par}`: "
                         f"a later call with another `{par}` is served the first call's result", node=node)
        if True:  # nested functions too: a closure-held dict outlives the call of the inner function
            for node, cont, key, par in memokey.param_omitted(effects.engine(ctx.program).fx(fi)):
                ctx.fail(rule, fi, f"memo-key-omits:{par}",
                         f"{fi.qual}: results are remembered in `{cont}` under `{key}`, but what is stored also depends on the parameter `{par}`, which is not part of the key: "
                         f"a call with another `{par}` is served the result remembered for the first one", node=node)
    ctx.ob(rule, "memo keys", f"{n} functions in {len(files)} file(s): no memo key is a projection of a memoised argument or leaves out a parameter the stored value depends on", file=sorted(files)[0] if files else "")
    return n


def child_status(ctx, rule, files):
    """no child process is started whose exit status is never looked at"""
    from . import procstatus
    files = set(files)
    n = 0
    for fi in _funcs_of(ctx.program, files):
        if ".<locals>." in fi.qual:
            continue
        n += 1
        for call, what in procstatus.findings(fi.node):
            ctx.fail(rule, fi, f"child-status-dropped:{fi.name}",
                     f"{fi.qual}: {what} (line {call.lineno}): a failing or killed child is indistinguishable from a successful one, so incomplete output is accepted", node=call)
    ctx.ob(rule, "child processes", f"{n} functions in {len(files)} file(s): every child process started has its exit status checked", file=sorted(files)[0] if files else "")
    return n


# findings of the exact lints that were read and are correct as they stand: (qualname, tag) -> why
LINT_EXEMPT = {
    ("mkdir", "quantity-truthiness:mode"): "creation mode only: a missing or zero mode is created 0777 and the requested mode (tested with `is not None`) is enforced right after by ensure_perms",
    ("pkgcore.util.parserestrict", "regex-punctuation-range:+-."): "as the tree stands the glob-token pattern `[\\w+-.]` also admits ','; a token with a comma then simply matches no package (no name contains one) — read, harmless, left alone",
    ("BugQuery.params", "optional-falsy-truth:offset"): "offset 0 is the server's default: leaving the parameter out is the same request",
}


def classic_slips(ctx, rule, files):
    """the exact lints of lints.py on functions, classes and module bodies of ``files``"""
    from . import lints, capture
    files = set(files)
    n = 0

    def report(owner, node, tag, msg):
        if (getattr(owner, "qual", ""), tag) in LINT_EXEMPT:
            ctx.ob(rule, "lint exemption", f"{owner.qual}: {tag} — {LINT_EXEMPT[(owner.qual, tag)]}", file=owner.relpath)
            return
        ctx.fail(rule, owner, tag, msg, node=node)

    for m in ctx.program.modules.values():
        if m.relpath not in files:
            continue
        for node, tag, msg in lints.module_alias_write(m.tree):
            ctx.fail(rule, m, tag, msg, node=node)
        for node, tag, msg in lints.implicit_concat_in_collection(m.tree, m.src) + lints.regex_punctuation_range(m.tree):
            if (m.name, tag) in LINT_EXEMPT:
                ctx.ob(rule, "lint exemption", f"{m.name}: {tag} — {LINT_EXEMPT[(m.name, tag)]}", file=m.relpath)
            else:
                ctx.fail(rule, m, tag, msg, node=node)
        for scope, owner in [(m.tree, m)] + [(K.node, K) for K in m.classes.values()]:
            for node, tag, msg in lints.clone_siblings(scope):
                ctx.fail(rule, owner, tag, f"{getattr(owner, 'qual', '')}: " + msg, node=node)
        for K in m.classes.values():
            for node, tag, msg in lints.copy_drops_field(ctx.program, K):
                ctx.fail(rule, K, tag, msg, node=node)
            for node, tag, msg in lints.cached_injected_result(K):
                ctx.fail(rule, K, tag, msg, node=node)
            for node, tag, msg in lints.lazy_parse_not_invalidated(ctx.program, K):
                ctx.fail(rule, K, tag, msg, node=node)
            for node, tag, msg in lints.closes_borrowed_handle(K):
                ctx.fail(rule, K, tag, msg, node=node)
            for node, tag, msg in lints.keyerror_on_defaultdict(K):
                ctx.fail(rule, K, tag, msg, node=node)
            for node, tag, msg in lints.optional_falsy_truthiness(ctx.program, K):
                meth = next((f for f in K.methods.values() if f.node.lineno <= node.lineno <= (f.node.end_lineno or 0)), K)
                report(meth, node, tag, msg)
            for meth, node, attr, keeper in capture.detached_keepers(K):
                ctx.fail(rule, meth, f"keeper-detached:{attr}", f"{meth.qual} rebinds `self.{attr}`, but `self.{keeper}` was built in __init__ around the object then bound to "
                         f"`self.{attr}` and is not rebuilt here: it keeps using the old object and never sees the new value", node=node)
        for fi in m.funcs.values():
            n += 1
            nested = ".<locals>." in fi.qual
            for f in (lints.dup_operands, lints.strip_charset, lints.cached_mutable, lints.broad_try_around_loop, lints.open_without_trunc, lints.unused_result,
                      lints.stored_iterator, lints.seq_equal_by_zip, lints.quantity_truthiness, lints.swallowed_fs_failure, lints.errno_tolerance_around_loop, lints.stale_precomputed_hash, lints.crossed_family_update, lints.guard_add_mismatch, lints.splitext_never_equal, lints.publish_failure_as_status, lints.quantity_or_default, lints.guard_attr_deviates, lints.unbalanced_peer_args, lints.id_in_hash, lints.set_op_with_sequence_default, lints.loop_flag_overwritten, lints.identity_on_quantity, lints.conditional_reraise, lints.loop_variable_reused, lints.item_error_around_loop, lints.loop_target_clobbers, lints.mode_mask_drops_special_bits, lints.copyfileobj_length_confusion, lints.child_status_conjoined):
                if nested:
                    continue  # the enclosing function's walk already covers nested bodies
                for node, tag, msg in f(fi.node):
                    if (fi.qual, tag) in LINT_EXEMPT:
                        report(fi, node, tag, msg)
                    else:
                        ctx.fail(rule, fi, f"{tag}:{fi.name}", f"{fi.qual}: " + msg, node=node)
            for node, tag, msg in lints.mutable_default(fi.node):
                ctx.fail(rule, fi, tag, f"{fi.qual}: " + msg, node=node)
            for node, tag, msg in lints.discarded_generator_call(ctx.program, fi):
                ctx.fail(rule, fi, tag, f"{fi.qual}: " + msg, node=node)
    ctx.ob(rule, "classic slips", f"{n} functions in {len(files)} file(s): no duplicated operand, prefix-by-strip(), shared mutable default, memoised mutable result, "
           "cloned sibling body, module-level alias write, catch-all or errno tolerance around a loop, write-open without truncation, single-pass iterator kept as state, "
           "prefix equality by zip, truth test on a quantity / optional falsy field, swallowed ownership-mode-rename failure, generator call as a statement, "
           "dataclass copy dropping a field, keeper detached from rebound state, attribute assigned after the hash computed from it, or injected callable's result cached unmaterialised", file=sorted(files)[0] if files else "")
    return n


def bash_scope(ctx, rule):
    """lower-case accumulators (`x+=...`) of the anchored bash files are declared or reset in their function"""
    from . import bashscope
    import json, os
    files = [f for f in _anchor_files_all(ctx.prop) if f in ctx.program.bash]
    if not files:
        return 0
    tot = 0
    for rel in files:
        bf = ctx.program.bash[rel]
        res, seen = bashscope.uninitialised_accumulators(bf.src)
        tot += seen
        for fname, line, name in res:
            ctx.fail(rule, fname, f"accumulator-not-local:{name}", f"{rel}: {fname} appends to `{name}` (line {line}) without declaring it local or resetting it first: the "
                     f"accumulator starts from whatever a caller, the sourced ebuild / eclass, or the previous request of this daemon left in a variable of that name", file=rel)
    ctx.ob(rule, "bash accumulators", f"{tot} `+=` accumulators in {len(files)} anchored bash file(s): every lower-case one is declared local or assigned first in its function", file=files[0])
    return tot


def always_reaches(ctx, rule, modname, qual, call_pred, what, tag):
    """every way through modname:qual that returns normally passes a call satisfying ``call_pred`` (no early return may
    skip the step: "nothing to write" is not a reason to leave the old file in place)"""
    import ast
    from . import astutil as A
    from .cfg import cfg_of
    fi = ctx.program.func_opt(modname, qual)
    ctx.require(fi is not None, f"{modname}:{qual} not found")
    g = cfg_of(fi.node)
    hits = [g.node_of(c) for c in A.calls(fi.node) if call_pred(c)]
    hits = [h for h in hits if h is not None]
    if not ctx.check(rule, fi, bool(hits), f"{tag}:present", f"{qual} performs {what}", f"{qual} no longer performs {what}"):
        return
    path = g.find_path([g.entry], lambda n: n is g.exit, avoid=lambda n: n in hits)
    ctx.check(rule, fi, path is None, tag, f"every normal way through {qual} performs {what}",
              f"{qual} can return without {what} ({g.fmt_path(path, fi.relpath) if path else ''}): the state on disk then stays as it was although the caller was told it had been written",
              node=hits[0].ast)
