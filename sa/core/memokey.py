"""Memo keys that identify less than the memoised computation reads.

``memo[pkg.key, stable] = compute(repo, pkg, stable)`` remembers, under the unversioned name, a result computed from a
specific version: the next version of the same package is served the first one's answer.  Rule: in a function that both
looks a key up in a container and stores the result of a call under that key, every *varying* argument of that call
(a parameter of the function, or a loop variable) must be a component of the key as it stands — a projection of it
(``pkg.key``, ``x[0]``, ``len(x)``) identifies less than the argument."""
from __future__ import annotations

import ast

from . import astutil as A


def _components(k):
    return [A.unparse(e) for e in (k.elts if isinstance(k, ast.Tuple) else [k])]


def findings(fn_node):
    """[(store node, container, key text, argument not covered, projection used instead or None)]"""
    params = {a.arg for a in ast.walk(fn_node.args) if isinstance(a, ast.arg)}
    loopvars = set()
    for n in A.body_walk(fn_node):
        if isinstance(n, (ast.For, ast.comprehension)):
            loopvars |= set(A.assigned_names(n.target))
    varying = (params | loopvars) - {"self", "cls"}
    reads = {}  # container text -> key node list
    for n in A.body_walk(fn_node):
        if isinstance(n, ast.Subscript) and isinstance(n.ctx, ast.Load):
            reads.setdefault(A.unparse(n.value), []).append(n.slice)
        elif isinstance(n, ast.Compare) and len(n.ops) == 1 and isinstance(n.ops[0], (ast.In, ast.NotIn)):
            reads.setdefault(A.unparse(n.comparators[0]), []).append(n.left)
        elif isinstance(n, ast.Call) and isinstance(n.func, ast.Attribute) and n.func.attr == "get" and n.args:
            reads.setdefault(A.unparse(n.func.value), []).append(n.args[0])
    out = []
    defs = {}
    for t, v, st in A.assignments(fn_node):
        if isinstance(t, ast.Name):
            defs.setdefault(t.id, []).append(v)

    def call_of(v):
        if isinstance(v, ast.Call):
            return v
        if isinstance(v, ast.Name):
            cs = [d for d in defs.get(v.id, []) if isinstance(d, ast.Call)]
            if len(cs) == 1:
                return cs[0]
        return None

    stores = []
    for n in A.body_walk(fn_node):
        if isinstance(n, ast.Assign):
            for t in n.targets:
                if isinstance(t, ast.Subscript):
                    stores.append((n, A.unparse(t.value), t.slice, n.value))
        elif isinstance(n, ast.Call) and isinstance(n.func, ast.Attribute) and n.func.attr == "setdefault" and len(n.args) == 2:
            stores.append((n, A.unparse(n.func.value), n.args[0], n.args[1]))
    for node, cont, key, val in stores:
        if cont not in reads:
            continue
        kc = _components(key)
        if not any(_components(r) == kc for r in reads[cont]):
            continue  # looked up under another key shape: not the memo idiom
        c = call_of(val)
        if c is None:
            continue
        for a in list(c.args) + [k.value for k in c.keywords]:
            if isinstance(a, ast.Name) and a.id in varying and A.unparse(a) not in kc:
                proj = [x for x in kc if x.startswith(a.id + ".") or x.startswith(a.id + "[") or ("(" + a.id + ")") in x]
                out.append((node, cont, A.unparse(key), a.id, proj[0] if proj else None))
    return out


def _is_lookup(e, ctext, ktext):
    if isinstance(e, ast.Subscript) and A.unparse(e.value) == ctext and A.unparse(e.slice) == ktext:
        return True
    return isinstance(e, ast.Call) and isinstance(e.func, ast.Attribute) and e.func.attr == "get" and e.args and A.unparse(e.func.value) == ctext and A.unparse(e.args[0]) == ktext


def _returns_lookup(fn, ctext, ktext):
    """some ``return`` hands out what was found in the container under the key (directly or through one local)"""
    via = {t.id for t, v, st in A.assignments(fn) if isinstance(t, ast.Name) and _is_lookup(v, ctext, ktext)}
    for n in A.body_walk(fn):
        if isinstance(n, ast.Return) and n.value is not None:
            if _is_lookup(n.value, ctext, ktext) or (isinstance(n.value, ast.Name) and n.value.id in via):
                return True
    return False


def param_omitted(fx):
    """[(store node, container, key text, parameter)] — the function looks a key up in a container that outlives the call
    (module level or on self) and stores a computed value under the same key; a *parameter* that the stored value depends
    on (by data flow, or through a branch condition under which a part of it was built) is not an input of the key: a call
    with another value of that parameter is served the remembered result of the first."""
    fn = fx.fn
    reads, stores = {}, []
    for n in A.body_walk(fn):
        if isinstance(n, ast.Subscript) and isinstance(n.ctx, ast.Load):
            reads.setdefault(A.unparse(n.value), []).append(n.slice)
        elif isinstance(n, ast.Compare) and len(n.ops) == 1 and isinstance(n.ops[0], (ast.In, ast.NotIn)):
            reads.setdefault(A.unparse(n.comparators[0]), []).append(n.left)
        elif isinstance(n, ast.Call) and isinstance(n.func, ast.Attribute) and n.func.attr == "get" and n.args:
            reads.setdefault(A.unparse(n.func.value), []).append(n.args[0])
        if isinstance(n, ast.Assign):
            for t in n.targets:
                if isinstance(t, ast.Subscript):
                    stores.append((n, t.value, t.slice, n.value))
        elif isinstance(n, ast.Call) and isinstance(n.func, ast.Attribute) and n.func.attr == "setdefault" and len(n.args) == 2:
            stores.append((n, n.func.value, n.args[0], n.args[1]))
    out = []
    fx._reaching()
    for node, cont, key, val in stores:
        ctext = A.unparse(cont)
        if ctext not in reads or not any(A.unparse(r) == A.unparse(key) for r in reads[ctext]):
            continue
        # the container must outlive the call: module level name, or attribute of self
        root = cont
        while isinstance(root, (ast.Attribute, ast.Subscript)):
            root = root.value
        if not isinstance(root, ast.Name):
            continue
        if root.id in fx.local_names and root.id != fx.selfname:
            continue
        if not _returns_lookup(fn, ctext, A.unparse(key)):
            continue  # not "answer from the container when the key is there": a plain table update
        ksrc = fx.sources(key, node)
        vsrc = fx.sources_with_control(val, node)
        # a chained store `a = memo[k] = f(...)` : the value expression is the same; a Name value is followed by sources()
        for t in sorted(vsrc - ksrc):
            if t.startswith("param:") and t[6:] not in (fx.selfname, "cls"):
                out.append((node, ctext, A.unparse(key), t[6:]))
    return out


def attr_memo_param_omitted(fx):
    """[(store node, attribute, parameter)] — ``if self._x is not None: return self._x … self._x = compute(arg)``: a result is
    remembered in ONE slot of the object although it depends on a parameter of the method: the second call with another
    argument is served the first call's result."""
    fn = fx.fn
    me = fx.selfname
    if not me:
        return []
    out = []
    fx._reaching()
    returned = set()
    for r in A.returns(fn):
        a = A.self_attr(r.value, me) if r.value is not None else None
        if a:
            returned.add(a)
        elif isinstance(r.value, ast.Name):
            for t, v, st in A.assignments(fn, r.value.id):
                if A.self_attr(v, me):
                    returned.add(A.self_attr(v, me))
    tested = set()
    for i in ast.walk(fn):
        if isinstance(i, ast.If):
            for n in ast.walk(i.test):
                a = A.self_attr(n, me) if isinstance(n, ast.Attribute) else None
                if a:
                    tested.add(a)
    for st in A.body_walk(fn):
        if not isinstance(st, ast.Assign):
            continue
        for t in st.targets:
            a = A.self_attr(t, me)
            if not a or a not in returned or a not in tested:
                continue
            if isinstance(st.value, ast.Constant):
                continue
            vsrc = fx.sources_with_control(st.value, st)
            for tag in sorted(vsrc):
                if tag.startswith("param:") and tag[6:] not in (me, "cls"):
                    out.append((st, a, tag[6:]))
    return out
