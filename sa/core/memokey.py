"""Memo keys that identify less than the memoised computation reads.

``memo[pkg.key, stable] = compute(repo, pkg, stable)`` remembers, under the unversioned name, a result computed from a
specific version: the next version of the same package is served the first one's answer.  Rule: in a function that both
looks a key up in a container and stores the result of a call under that key, every *varying* argument of that call
(a parameter of the function, or a loop variable) must be a component of the key as it stands — a projection of it
(``pkg.key``, ``x[0]``, ``len(x)``) identifies less than the argument."""
from __future__ import annotations

import ast

from . import astutil as A


def _components(k):
    return [A.unparse(e) for e in (k.elts if isinstance(k, ast.Tuple) else [k])]


def findings(fn_node):
    """[(store node, container, key text, argument not covered, projection used instead or None)]"""
    params = {a.arg for a in ast.walk(fn_node.args) if isinstance(a, ast.arg)}
    loopvars = set()
    for n in A.body_walk(fn_node):
        if isinstance(n, (ast.For, ast.comprehension)):
            loopvars |= set(A.assigned_names(n.target))
    varying = (params | loopvars) - {"self", "cls"}
    reads = {}  # container text -> key node list
    for n in A.body_walk(fn_node):
        if isinstance(n, ast.Subscript) and isinstance(n.ctx, ast.Load):
            reads.setdefault(A.unparse(n.value), []).append(n.slice)
        elif isinstance(n, ast.Compare) and len(n.ops) == 1 and isinstance(n.ops[0], (ast.In, ast.NotIn)):
            reads.setdefault(A.unparse(n.comparators[0]), []).append(n.left)
        elif isinstance(n, ast.Call) and isinstance(n.func, ast.Attribute) and n.func.attr == "get" and n.args:
            reads.setdefault(A.unparse(n.func.value), []).append(n.args[0])
    out = []
    defs = {}
    for t, v, st in A.assignments(fn_node):
        if isinstance(t, ast.Name):
            defs.setdefault(t.id, []).append(v)

    def call_of(v):
        if isinstance(v, ast.Call):
            return v
        if isinstance(v, ast.Name):
            cs = [d for d in defs.get(v.id, []) if isinstance(d, ast.Call)]
            if len(cs) == 1:
                return cs[0]
        return None

    stores = []
    for n in A.body_walk(fn_node):
        if isinstance(n, ast.Assign):
            for t in n.targets:
                if isinstance(t, ast.Subscript):
                    stores.append((n, A.unparse(t.value), t.slice, n.value))
        elif isinstance(n, ast.Call) and isinstance(n.func, ast.Attribute) and n.func.attr == "setdefault" and len(n.args) == 2:
            stores.append((n, A.unparse(n.func.value), n.args[0], n.args[1]))
    for node, cont, key, val in stores:
        if cont not in reads:
            continue
        kc = _components(key)
        if not any(_components(r) == kc for r in reads[cont]):
            continue  # looked up under another key shape: not the memo idiom
        c = call_of(val)
        cands = [c] if c is not None else []
        # the remembered value may wrap the call: tuple(f(x)) or DEFAULT, sorted(f(x)), ...
        exprs = [val] + (defs.get(val.id, []) if isinstance(val, ast.Name) else [])
        cands += [x for e_ in exprs for x in ast.walk(e_) if isinstance(x, ast.Call) and x is not c]
        seen_args = set()
        for c in cands:
            for a in list(c.args) + [k.value for k in c.keywords]:
                root = a
                while isinstance(root, (ast.Attribute, ast.Subscript)):
                    root = root.value
                if not (isinstance(root, ast.Name) and root.id in varying):
                    continue
                if not isinstance(a, (ast.Name, ast.Attribute)):
                    continue
                atxt = A.unparse(a)
                if atxt in kc or atxt in seen_args:
                    continue
                proj = [x for x in kc if x.startswith(atxt + ".") or x.startswith(atxt + "[") or ("(" + atxt + ")") in x]
                if isinstance(a, ast.Name) or proj:
                    seen_args.add(atxt)
                    out.append((node, cont, A.unparse(key), atxt, proj[0] if proj else None))
    return out


def _is_lookup(e, ctext, ktext):
    if isinstance(e, ast.Subscript) and A.unparse(e.value) == ctext and A.unparse(e.slice) == ktext:
        return True
    return isinstance(e, ast.Call) and isinstance(e.func, ast.Attribute) and e.func.attr == "get" and e.args and A.unparse(e.func.value) == ctext and A.unparse(e.args[0]) == ktext


def _returns_lookup(fn, ctext, ktext):
    """some ``return`` hands out what was found in the container under the key (directly or through one local)"""
    via = {t.id for t, v, st in A.assignments(fn) if isinstance(t, ast.Name) and _is_lookup(v, ctext, ktext)}
    for n in A.body_walk(fn):
        if isinstance(n, ast.Return) and n.value is not None:
            if _is_lookup(n.value, ctext, ktext) or (isinstance(n.value, ast.Name) and n.value.id in via):
                return True
    return False


def param_omitted(fx):
    """[(store node, container, key text, parameter)] — the function looks a key up in a container that outlives the call
    (module level or on self) and stores a computed value under the same key; a *parameter* that the stored value depends
    on (by data flow, or through a branch condition under which a part of it was built) is not an input of the key: a call
    with another value of that parameter is served the remembered result of the first."""
    fn = fx.fn
    reads, stores = {}, []
    for n in A.body_walk(fn):
        if isinstance(n, ast.Subscript) and isinstance(n.ctx, ast.Load):
            reads.setdefault(A.unparse(n.value), []).append(n.slice)
        elif isinstance(n, ast.Compare) and len(n.ops) == 1 and isinstance(n.ops[0], (ast.In, ast.NotIn)):
            reads.setdefault(A.unparse(n.comparators[0]), []).append(n.left)
        elif isinstance(n, ast.Call) and isinstance(n.func, ast.Attribute) and n.func.attr == "get" and n.args:
            reads.setdefault(A.unparse(n.func.value), []).append(n.args[0])
        if isinstance(n, ast.Assign):
            for t in n.targets:
                if isinstance(t, ast.Subscript):
                    stores.append((n, t.value, t.slice, n.value))
        elif isinstance(n, ast.Call) and isinstance(n.func, ast.Attribute) and n.func.attr == "setdefault" and len(n.args) == 2:
            stores.append((n, n.func.value, n.args[0], n.args[1]))
    out = []
    fx._reaching()
    for node, cont, key, val in stores:
        ctext = A.unparse(cont)
        if ctext not in reads or not any(A.unparse(r) == A.unparse(key) for r in reads[ctext]):
            continue
        # the container must outlive the call: module level name, or attribute of self
        root = cont
        while isinstance(root, (ast.Attribute, ast.Subscript)):
            root = root.value
        if not isinstance(root, ast.Name):
            continue
        if root.id in fx.local_names and root.id != fx.selfname:
            continue
        if not _returns_lookup(fn, ctext, A.unparse(key)):
            continue  # not "answer from the container when the key is there": a plain table update
        ksrc = fx.sources(key, node)
        vsrc = fx.sources_with_control(val, node)
        # a chained store `a = memo[k] = f(...)` : the value expression is the same; a Name value is followed by sources()
        for t in sorted(vsrc - ksrc):
            if t.startswith("param:") and t[6:] not in (fx.selfname, "cls", "self"):
                out.append((node, ctext, A.unparse(key), t[6:]))
    return out


def attr_memo_param_omitted(fx):
    """[(store node, "<object>.<attribute>", parameter)] — ``if obj._x is not None: return obj._x … obj._x = compute(arg)`` where
    ``obj`` is self or another parameter: a result is remembered in ONE slot of an object although it depends on a (further)
    parameter of the function: the second call with another argument is served the first call's result.  Stores through
    ``object.__setattr__(obj, "_x", v)`` count; a container filled by a callee that also received the parameter counts as
    depending on it."""
    fn = fx.fn
    holders = set(fx.params)
    if not holders:
        return []
    out = []
    fx._reaching()

    def slot(e):
        if isinstance(e, ast.Attribute) and isinstance(e.value, ast.Name) and e.value.id in holders:
            return e.value.id, e.attr
        return None
    returned = set()
    for r in A.returns(fn):
        if r.value is None:
            continue
        if slot(r.value):
            returned.add(slot(r.value))
        elif isinstance(r.value, ast.Name):
            for t, v, st in A.assignments(fn, r.value.id):
                if slot(v):
                    returned.add(slot(v))
    tested = set()
    for i in ast.walk(fn):
        if isinstance(i, ast.If):
            for n in ast.walk(i.test):
                if slot(n):
                    tested.add(slot(n))
    stores = []
    for st in A.body_walk(fn):
        if isinstance(st, ast.Assign):
            for t in st.targets:
                if slot(t):
                    stores.append((st, slot(t), st.value))
        elif isinstance(st, ast.Expr) and isinstance(st.value, ast.Call) and A.unparse(st.value.func) in ("object.__setattr__", "sf", "setattr") and len(st.value.args) == 3 \
                and isinstance(st.value.args[0], ast.Name) and st.value.args[0].id in holders and isinstance(st.value.args[1], ast.Constant):
            stores.append((st, (st.value.args[0].id, st.value.args[1].value), st.value.args[2]))
    for st, sl, val in stores:
        if sl not in returned or sl not in tested or isinstance(val, ast.Constant):
            continue
        vsrc = fx.sources_filled(val, st)
        from .match import path_conditions
        fixed = {c.split(" is None")[0] for c in path_conditions(st, fn) if c.endswith(" is None")}  # stored only for that one value
        for tag in sorted(vsrc):
            if tag.startswith("param:") and tag[6:] not in (sl[0], "cls", fx.selfname) and tag[6:] not in fixed:
                out.append((st, f"{sl[0]}.{sl[1]}", tag[6:]))
    return out
