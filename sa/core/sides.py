"""Two-sided provenance ("which operand does this value come from?") by a small flow-sensitive
abstract interpreter over one function.  Used for argument-orientation rules such as
``every cmp(a, b) has a from operand 1 and b from operand 2``.

Abstract value of a variable: frozenset of sides it derives from.  ``if`` arms are interpreted on
copies and merged by union; loop bodies are interpreted twice (enough for the union to stabilise
in the functions this is applied to)."""
from __future__ import annotations

import ast

from .model import dotted


class SideInterp:
    def __init__(self, seeds, on_call=None, attr_seeds=None, indexed_pairs=None):
        """seeds: {name: {side}}; attr_seeds: {"self": 1, "other": 2} bases whose attributes carry a
        side; on_call(call, env, interp) is invoked for every Call encountered, in flow order."""
        self.seeds = {k: frozenset(v) for k, v in seeds.items()}
        self.attr_seeds = attr_seeds or {}
        self.on_call = on_call
        self.pair_lists = {}  # name -> tuple of side-sets by constant index (lists filled by a loop over a pair)

    # -- expression sides ------------------------------------------------
    def sides(self, e, env):
        if e is None or isinstance(e, ast.Constant):
            return frozenset()
        if isinstance(e, ast.Name):
            return env.get(e.id, frozenset())
        if isinstance(e, ast.Attribute):
            return self.sides(e.value, env)
        if isinstance(e, ast.Subscript):
            if isinstance(e.value, ast.Name) and e.value.id in self.pair_lists:
                idx = e.slice.value if isinstance(e.slice, ast.Constant) else None
                pl = self.pair_lists[e.value.id]
                if isinstance(idx, int) and 0 <= idx < len(pl):
                    return pl[idx]
            v = self.sides(e.value, env)
            if v:
                return v
            return self.sides(e.slice, env)
        if isinstance(e, ast.Call):
            out = self.sides(e.func.value, env) if isinstance(e.func, ast.Attribute) else frozenset()
            for a in e.args:
                out |= self.sides(a.value if isinstance(a, ast.Starred) else a, env)
            for k in e.keywords:
                out |= self.sides(k.value, env)
            return out
        out = frozenset()
        for c in ast.iter_child_nodes(e):
            if isinstance(c, ast.expr):
                out |= self.sides(c, env)
        return out

    # -- statements ----------------------------------------------------------
    def run(self, fn_node):
        env = dict(self.seeds)
        self.block(fn_node.body, env)
        return env

    def _visit_calls(self, node, env):
        if self.on_call is None or node is None:
            return
        for n in ast.walk(node):
            if isinstance(n, ast.Call):
                self.on_call(n, env, self)

    def bind(self, target, val_sides, env, value=None):
        if isinstance(target, ast.Name):
            env[target.id] = val_sides
        elif isinstance(target, (ast.Tuple, ast.List)):
            if isinstance(value, (ast.Tuple, ast.List)) and len(value.elts) == len(target.elts):
                for t, v in zip(target.elts, value.elts):
                    self.bind(t, self.sides(v, env), env, v)
            else:
                for t in target.elts:
                    self.bind(t, val_sides, env)
        elif isinstance(target, ast.Subscript) and isinstance(target.value, ast.Name):
            env[target.value.id] = env.get(target.value.id, frozenset()) | val_sides
        elif isinstance(target, ast.Starred):
            self.bind(target.value, val_sides, env)

    def block(self, stmts, env):
        for st in stmts:
            self.stmt(st, env)

    def stmt(self, st, env):
        if isinstance(st, ast.Assign):
            self._visit_calls(st.value, env)
            s = self.sides(st.value, env)
            for t in st.targets:
                self.bind(t, s, env, st.value)
        elif isinstance(st, ast.AnnAssign):
            if st.value is not None:
                self._visit_calls(st.value, env)
                self.bind(st.target, self.sides(st.value, env), env, st.value)
        elif isinstance(st, ast.AugAssign):
            self._visit_calls(st.value, env)
            if isinstance(st.target, ast.Name):
                env[st.target.id] = env.get(st.target.id, frozenset()) | self.sides(st.value, env)
        elif isinstance(st, ast.If):
            self._visit_calls(st.test, env)
            e1, e2 = dict(env), dict(env)
            self.block(st.body, e1)
            self.block(st.orelse, e2)
            self._merge(env, e1, e2)
        elif isinstance(st, (ast.For, ast.AsyncFor)):
            self._visit_calls(st.iter, env)
            self._bind_for(st, env)
            pre = dict(env)
            for _ in range(2):
                self.block(st.body, env)
                self._bind_for(st, env)
            self.block(st.orelse, env)
            self._merge(env, env, pre)
        elif isinstance(st, ast.While):
            self._visit_calls(st.test, env)
            pre = dict(env)
            for _ in range(2):
                self.block(st.body, env)
            self.block(st.orelse, env)
            self._merge(env, env, pre)
        elif isinstance(st, (ast.With, ast.AsyncWith)):
            for it in st.items:
                self._visit_calls(it.context_expr, env)
                if it.optional_vars is not None:
                    self.bind(it.optional_vars, self.sides(it.context_expr, env), env)
            self.block(st.body, env)
        elif isinstance(st, ast.Try):
            pre = dict(env)
            self.block(st.body, env)
            envs = [env]
            for h in st.handlers:
                eh = dict(pre)
                self._merge(eh, eh, env)
                self.block(h.body, eh)
                envs.append(eh)
            self.block(st.orelse, env)
            for e in envs[1:]:
                self._merge(env, env, e)
            self.block(st.finalbody, env)
        elif isinstance(st, (ast.Return, ast.Expr)):
            self._visit_calls(st.value, env)
            # list.append inside a loop over a pair is handled in _bind_for
        elif isinstance(st, ast.Raise):
            self._visit_calls(st.exc, env)
        elif isinstance(st, ast.Delete):
            pass
        elif isinstance(st, (ast.FunctionDef, ast.AsyncFunctionDef, ast.ClassDef)):
            pass
        else:
            for c in ast.iter_child_nodes(st):
                if isinstance(c, ast.expr):
                    self._visit_calls(c, env)

    def _merge(self, dst, a, b):
        keys = set(a) | set(b)
        res = {k: a.get(k, frozenset()) | b.get(k, frozenset()) for k in keys}
        dst.clear()
        dst.update(res)

    def _bind_for(self, st, env):
        it = st.iter
        # for a, b in zip(A, B)  /  for i, (a, b) in enumerate(zip(A, B))
        if isinstance(it, ast.Call) and dotted(it.func) == "enumerate" and it.args:
            inner = it.args[0]
            if isinstance(st.target, ast.Tuple) and len(st.target.elts) == 2:
                self.bind(st.target.elts[0], frozenset(), env)
                self._bind_iter(st.target.elts[1], inner, env)
                return
        self._bind_iter(st.target, it, env)
        # for L in (A, B): ... X.append(f(L))  => X is a pair list indexed by side
        if isinstance(it, (ast.Tuple, ast.List)) and isinstance(st.target, ast.Name):
            per = [self.sides(e, env) for e in it.elts]
            for n in ast.walk(st):
                if (
                    isinstance(n, ast.Call)
                    and isinstance(n.func, ast.Attribute)
                    and n.func.attr == "append"
                    and isinstance(n.func.value, ast.Name)
                ):
                    self.pair_lists[n.func.value.id] = tuple(per)
            env[st.target.id] = frozenset().union(*per) if per else frozenset()

    def _bind_iter(self, target, it, env):
        if isinstance(it, ast.Call) and dotted(it.func) in ("zip", "itertools.zip_longest", "zip_longest"):
            if isinstance(target, (ast.Tuple, ast.List)) and len(target.elts) == len(it.args):
                for t, a in zip(target.elts, it.args):
                    self.bind(t, self.sides(a, env), env)
                return
        if isinstance(it, ast.Call) and dotted(it.func) == "range":
            self.bind(target, frozenset(), env)
            return
        self.bind(target, self.sides(it, env), env)
