"""A small bash reader for the ebd sources (DESIGN §2.9): enough structure for table/ordering rules.

Nothing is executed.  The reader understands quoting (single, double, $'..'), comments, ``$( )`` /
``${ }`` / ``$(( ))`` / backtick nesting, here-documents (``<<[-]WORD``), and splits text into
*commands* (word lists) at newlines, ``;``, ``&&``, ``||``, ``|``, ``&``.  On top of that:

  * ``functions(src)``       name -> Function(name, body, line)
  * ``commands(text)``       [Command(words, line, sep_before, raw)]
  * ``case_blocks(text)``    [Case(subject, arms=[Arm(patterns, body, line)], line)]
  * ``Command.opts()``       option letters of a simple command (``read -r -N 5 x`` -> {'r','N'})

Constructs the ebd sources do not use (coprocs, select, arithmetic for) are not modelled; an
unbalanced construct raises AnalysisError rather than producing a partial parse."""
from __future__ import annotations

import re
from dataclasses import dataclass, field

from .report import AnalysisError


@dataclass
class Command:
    words: list
    line: int
    sep_before: str
    raw: str
    assigns: list = field(default_factory=list)  # leading VAR=value words

    @property
    def name(self):
        return self.words[0] if self.words else ""

    def opts(self):
        out = set()
        for w in self.words[1:]:
            if w.startswith("--"):
                continue
            if w.startswith("-") and len(w) > 1 and not w[1].isdigit():
                out.update(w[1:])
        return out

    def __repr__(self):
        return f"<cmd {' '.join(self.assigns + self.words)!r} @{self.line}>"


@dataclass
class Function:
    name: str
    body: str
    line: int
    body_line: int


@dataclass
class Arm:
    patterns: list
    body: str
    line: int


@dataclass
class Case:
    subject: str
    arms: list
    line: int


def _skip_quoted(s, i):
    """s[i] opens a quote/substitution; return the index just past its end."""
    n = len(s)
    c = s[i]
    if c == "'":
        j = s.find("'", i + 1)
        if j < 0:
            raise AnalysisError("bash: unterminated single quote")
        return j + 1
    if c == '"':
        j = i + 1
        while j < n:
            if s[j] == "\\":
                j += 2
                continue
            if s[j] == '"':
                return j + 1
            if s[j] == "$" and j + 1 < n and s[j + 1] in "({":
                j = _skip_quoted(s, j)
                continue
            if s[j] == "`":
                j = _skip_quoted(s, j)
                continue
            j += 1
        raise AnalysisError("bash: unterminated double quote")
    if c == "`":
        j = i + 1
        while j < n:
            if s[j] == "\\":
                j += 2
                continue
            if s[j] == "`":
                return j + 1
            j += 1
        raise AnalysisError("bash: unterminated backtick")
    if c == "$" and i + 1 < n:
        d = s[i + 1]
        if d == "'":
            j = i + 2
            while j < n:
                if s[j] == "\\":
                    j += 2
                    continue
                if s[j] == "'":
                    return j + 1
                j += 1
            raise AnalysisError("bash: unterminated $'")
        if d == "{":
            return _skip_balanced(s, i + 1, "{", "}")
        if d == "(":
            return _skip_balanced(s, i + 1, "(", ")")
    return i + 1


def _skip_balanced(s, i, op, cl):
    depth = 0
    n = len(s)
    j = i
    while j < n:
        c = s[j]
        if c == "\\":
            j += 2
            continue
        if c in "'\"`" or (c == "$" and j + 1 < n and s[j + 1] in "'({" and j != i - 1):
            if c == "$" and s[j + 1] == op and False:
                pass
            k = _skip_quoted(s, j)
            if k == j + 1 and c == "$":
                j += 1
                continue
            j = k
            continue
        if c == "#" and op == "(" and (j == 0 or s[j - 1] in " \t\n;(") :
            nl = s.find("\n", j)
            j = n if nl < 0 else nl
            continue
        if c == op:
            depth += 1
        elif c == cl:
            depth -= 1
            if depth == 0:
                return j + 1
        j += 1
    raise AnalysisError(f"bash: unbalanced {op}{cl}")


_HEREDOC = re.compile(r"<<(-?)\s*(['\"]?)([A-Za-z_][A-Za-z0-9_]*)\2")


def tokens(text, base_line=1):
    """Yield ('word', text, line) and ('sep', text, line)."""
    s = text
    n = len(s)
    i = 0
    line = base_line
    word = []
    wline = line
    pending_heredocs = []

    def flush():
        nonlocal word
        if word:
            w = "".join(word)
            word = []
            return ("word", w, wline)
        return None

    while i < n:
        c = s[i]
        if c == "\\" and i + 1 < n:
            if s[i + 1] == "\n":
                i += 2
                line += 1
                continue
            if not word:
                wline = line
            word.append(s[i:i + 2])
            i += 2
            continue
        if c in " \t":
            t = flush()
            if t:
                yield t
            i += 1
            continue
        if c == "\n":
            t = flush()
            if t:
                yield t
            yield ("sep", "\n", line)
            line += 1
            i += 1
            for strip_tabs, tag in pending_heredocs:
                while i < n:
                    nl = s.find("\n", i)
                    ln = s[i:nl if nl >= 0 else n]
                    i = n if nl < 0 else nl + 1
                    line += 1
                    if (ln.lstrip("\t") if strip_tabs else ln) == tag:
                        break
            pending_heredocs = []
            continue
        if c == "#" and not word:
            nl = s.find("\n", i)
            i = n if nl < 0 else nl
            continue
        if c in "'\"`" or (c == "$" and i + 1 < n and s[i + 1] in "'({"):
            j = _skip_quoted(s, i)
            if not word:
                wline = line
            word.append(s[i:j])
            line += s.count("\n", i, j)
            i = j
            continue
        if c == "<" and s.startswith("<<", i) and not s.startswith("<<<", i):
            m = _HEREDOC.match(s, i)
            if m:
                pending_heredocs.append((m.group(1) == "-", m.group(3)))
                t = flush()
                if t:
                    yield t
                i = m.end()
                continue
        if c in ";&|":
            t = flush()
            if t:
                yield t
            two = s[i:i + 2]
            if two in ("&&", "||", ";;", "|&", ";&"):
                if two == "&&" or two == "||" or two == ";;" or two == "|&":
                    yield ("sep", two, line)
                    i += 2
                    continue
            if c == "&" and i > 0 and s[i - 1] in "<>":
                word.append(c)
                i += 1
                continue
            if c == "&" and i + 1 < n and s[i + 1] == ">":
                if not word:
                    wline = line
                word.append(c)
                i += 1
                continue
            yield ("sep", c, line)
            i += 1
            continue
        if c == "(" and not word:
            # subshell / array literal start / function parens
            if s.startswith("((", i):
                j = _skip_balanced(s, i, "(", ")")
                wline = line
                word.append(s[i:j])
                line += s.count("\n", i, j)
                i = j
                continue
            yield ("sep", "(", line)
            i += 1
            continue
        if c == "(" and word:
            # array assignment a=( ... ) or func() or extglob
            if word[-1].endswith("=") or "".join(word).endswith(("=", "+=")):
                j = _skip_balanced(s, i, "(", ")")
                word.append(s[i:j])
                line += s.count("\n", i, j)
                i = j
                continue
            if s.startswith("()", i):
                word.append("()")
                i += 2
                continue
            if word and word[-1][-1:] in "@?*+!":
                j = _skip_balanced(s, i, "(", ")")
                word.append(s[i:j])
                i = j
                continue
            t = flush()
            if t:
                yield t
            yield ("sep", "(", line)
            i += 1
            continue
        if c == ")":
            t = flush()
            if t:
                yield t
            yield ("sep", ")", line)
            i += 1
            continue
        if c == "[" and s.startswith("[[", i) and not word:
            # [[ ... ]] conditional: keep as one word
            j = i + 2
            while j < n and not s.startswith("]]", j):
                if s[j] in "'\"`" or (s[j] == "$" and j + 1 < n and s[j + 1] in "'({"):
                    j = _skip_quoted(s, j)
                    continue
                if s[j] == "\\":
                    j += 2
                    continue
                j += 1
            if j >= n:
                raise AnalysisError("bash: unterminated [[")
            wline = line
            word.append(s[i:j + 2])
            line += s.count("\n", i, j + 2)
            i = j + 2
            continue
        if not word:
            wline = line
        word.append(c)
        i += 1
    t = flush()
    if t:
        yield t


_ASSIGN = re.compile(r"^[A-Za-z_][A-Za-z0-9_]*(\[[^\]]*\])?\+?=")


def commands(text, base_line=1):
    """Flat list of simple commands (compound-command keywords appear as command names)."""
    out = []
    cur = []
    cur_line = None
    sep_before = "\n"
    last_sep = "\n"
    lines = text.split("\n")

    def end():
        nonlocal cur, cur_line
        if cur:
            assigns = []
            words = list(cur)
            while words and _ASSIGN.match(words[0]) and len(words) > 0:
                if len(words) == 1:
                    break
                assigns.append(words.pop(0))
            raw = lines[cur_line - base_line].strip() if 0 <= cur_line - base_line < len(lines) else ""
            out.append(Command(words, cur_line, sep_before, raw, assigns))
        cur = []
        cur_line = None

    for kind, txt, ln in tokens(text, base_line):
        if kind == "word":
            if not cur:
                cur_line = ln
                sep_before = last_sep
            cur.append(txt)
        else:
            end()
            last_sep = txt
    end()
    return out


_FUNC_RE = re.compile(r"^[ \t]*(?:function[ \t]+)?([A-Za-z_][A-Za-z0-9_:.+-]*)[ \t]*\(\)[ \t]*\{?[ \t]*$|^[ \t]*function[ \t]+([A-Za-z_][A-Za-z0-9_:.+-]*)[ \t]*\{?[ \t]*$", re.M)


def functions(src):
    """name -> Function.  Function bodies are brace-balanced with quote awareness."""
    out = {}
    for m in _FUNC_RE.finditer(src):
        name = m.group(1) or m.group(2)
        # locate opening brace
        i = src.find("{", m.start(), m.end() + 1) if "{" in m.group(0) else None
        if i is None or i < 0:
            j = m.end()
            while j < len(src) and src[j] in " \t\n":
                j += 1
            if j >= len(src) or src[j] != "{":
                continue
            i = j
        try:
            end = _skip_body(src, i)
        except AnalysisError:
            continue
        line = src.count("\n", 0, m.start()) + 1
        body = src[i + 1:end - 1]
        out.setdefault(name, Function(name, body, line, src.count("\n", 0, i + 1) + 1))
    return out


def _skip_body(s, i):
    """s[i] == '{' opening a function body: return index past the matching '}' (a '}' that is a word
    on its own, outside quotes/comments/heredocs)."""
    n = len(s)
    depth = 0
    j = i
    at_word_start = True
    while j < n:
        c = s[j]
        if c == "\\":
            j += 2
            at_word_start = False
            continue
        if c == "#" and at_word_start:
            nl = s.find("\n", j)
            j = n if nl < 0 else nl
            continue
        if c in "'\"`" or (c == "$" and j + 1 < n and s[j + 1] in "'({"):
            j = _skip_quoted(s, j)
            at_word_start = False
            continue
        if c == "<" and s.startswith("<<", j) and not s.startswith("<<<", j):
            m = _HEREDOC.match(s, j)
            if m:
                tag, strip = m.group(3), m.group(1) == "-"
                nl = s.find("\n", m.end())
                k = nl + 1
                while 0 < k < n:
                    nl2 = s.find("\n", k)
                    ln = s[k:nl2 if nl2 >= 0 else n]
                    k = n if nl2 < 0 else nl2 + 1
                    if (ln.lstrip("\t") if strip else ln) == tag:
                        break
                j = k
                at_word_start = True
                continue
        if c == "{" and at_word_start and (j + 1 >= n or s[j + 1] in " \t\n"):
            depth += 1
        elif c == "}" and at_word_start and (j + 1 >= n or s[j + 1] in " \t\n;)&|"):
            depth -= 1
            if depth == 0:
                return j + 1
        at_word_start = c in " \t\n;&|("
        j += 1
    raise AnalysisError("bash: unbalanced function body")


_CASE_RE = re.compile(r"\bcase[ \t]+(.+?)[ \t]+in\b")


def case_blocks(text, base_line=1):
    """All ``case SUBJECT in … esac`` blocks (outermost and nested), with their arms."""
    out = []
    for m in _CASE_RE.finditer(text):
        # skip matches inside comments
        ls = text.rfind("\n", 0, m.start()) + 1
        if "#" in text[ls:m.start()] and not text[ls:m.start()].strip().endswith(("'", '"')):
            pre = text[ls:m.start()]
            if re.search(r"(^|\s)#", pre):
                continue
        try:
            arms, _ = _parse_arms(text, m.end(), base_line)
        except AnalysisError:
            continue
        out.append(Case(m.group(1).strip(), arms, base_line + text.count("\n", 0, m.start())))
    return out


def _parse_arms(s, i, base_line):
    n = len(s)
    arms = []
    j = i
    while True:
        # skip whitespace/comments
        while j < n:
            if s[j] in " \t\n":
                j += 1
            elif s[j] == "#":
                nl = s.find("\n", j)
                j = n if nl < 0 else nl
            else:
                break
        if j >= n:
            raise AnalysisError("bash: case without esac")
        if s.startswith("esac", j) and (j + 4 >= n or not (s[j + 4].isalnum() or s[j + 4] == "_")):
            return arms, j + 4
        # pattern list up to unquoted ')'
        k = j
        if s[k] == "(":
            k += 1
        pstart = k
        while k < n and s[k] != ")":
            if s[k] in "'\"`" or (s[k] == "$" and k + 1 < n and s[k + 1] in "'({"):
                k = _skip_quoted(s, k)
                continue
            if s[k] == "\\":
                k += 2
                continue
            if s[k] == "(":  # extglob
                k = _skip_balanced(s, k, "(", ")")
                continue
            k += 1
        if k >= n:
            raise AnalysisError("bash: case arm without ')'")
        pats = [p.strip() for p in _split_top(s[pstart:k], "|")]
        line = base_line + s.count("\n", 0, j)
        # body up to ';;' / ';&' / ';;&' at depth 0 or esac
        b = k + 1
        d = b
        depth_case = 0
        while d < n:
            c = s[d]
            if c == "\\":
                d += 2
                continue
            if c == "#" and (d == 0 or s[d - 1] in " \t\n;"):
                nl = s.find("\n", d)
                d = n if nl < 0 else nl
                continue
            if c in "'\"`" or (c == "$" and d + 1 < n and s[d + 1] in "'({"):
                d = _skip_quoted(s, d)
                continue
            if re.match(r"case[ \t]", s[d:d + 5]) and (d == 0 or s[d - 1] in " \t\n;"):
                depth_case += 1
                d += 4
                continue
            if s.startswith("esac", d) and (d == 0 or s[d - 1] in " \t\n;") and (d + 4 >= n or not (s[d + 4].isalnum() or s[d + 4] == "_")):
                if depth_case == 0:
                    arms.append(Arm(pats, s[b:d], line))
                    return arms, d + 4
                depth_case -= 1
                d += 4
                continue
            if s.startswith(";;", d) and depth_case == 0:
                arms.append(Arm(pats, s[b:d], line))
                d += 2
                if d < n and s[d] == "&":
                    d += 1
                break
            d += 1
        else:
            raise AnalysisError("bash: case arm not terminated")
        j = d


def _split_top(s, ch):
    out, cur, i, n = [], [], 0, len(s)
    while i < n:
        c = s[i]
        if c in "'\"`" or (c == "$" and i + 1 < n and s[i + 1] in "'({"):
            j = _skip_quoted(s, i)
            cur.append(s[i:j])
            i = j
            continue
        if c == "\\":
            cur.append(s[i:i + 2])
            i += 2
            continue
        if c == "(":
            j = _skip_balanced(s, i, "(", ")")
            cur.append(s[i:j])
            i = j
            continue
        if c == ch:
            out.append("".join(cur))
            cur = []
        else:
            cur.append(c)
        i += 1
    out.append("".join(cur))
    return out


def calls_of(text, name, base_line=1):
    return [c for c in commands(text, base_line) if c.name == name]


# ---------------------------------------------------------------------------------------------------
# Structure: if/loops/case/and-or over the flat command list, and an effect-count analysis on it
# ---------------------------------------------------------------------------------------------------
_OPEN_KW = {"if", "for", "while", "until", "case", "{", "select"}


def _outer_cases(text):
    """Outermost case blocks with their character spans: [(start, end, Case)]."""
    spans = []
    for m in _CASE_RE.finditer(text):
        ls = text.rfind("\n", 0, m.start()) + 1
        pre = text[ls:m.start()]
        if re.search(r"(^|\s)#", pre):
            continue
        if spans and m.start() < spans[-1][1]:
            continue
        try:
            arms, endpos = _parse_arms(text, m.end(), 1)
        except AnalysisError:
            continue
        spans.append((m.start(), endpos, Case(m.group(1).strip(), arms, 1 + text.count("\n", 0, m.start()))))
    return spans


def structure(text, base_line=1):
    """Parse a bash block into a tree:
        ("seq", [node...]) | ("cmd", Command) | ("if", [(cond_seq, body_seq)...], else_seq|None)
        ("loop", kind, head_seq, body_seq) | ("case", Case, [(patterns, body_seq)...]) | ("andor", left, op, right) | ("group", seq)"""
    spans = _outer_cases(text)
    cases = {}
    out = []
    last = 0
    for i, (a, b, c) in enumerate(spans):
        out.append(text[last:a])
        # keep line numbering: placeholder followed by the same number of newlines
        out.append(f"__CASE_{i}__" + "\n" * text.count("\n", a, b))
        c.line = base_line + text.count("\n", 0, a)
        cases[f"__CASE_{i}__"] = (c, base_line + text.count("\n", 0, a))
        last = b
    out.append(text[last:])
    cmds = commands("".join(out), base_line)
    # split leading keywords that carry a command on the same line: "then cmd", "do cmd", "else cmd", "{ cmd"
    flat = []
    for c in cmds:
        while c.words and c.words[0] in ("then", "do", "else", "{", "!", "time") and len(c.words) > 1 and not c.assigns:
            flat.append(Command([c.words[0]], c.line, c.sep_before, c.raw))
            c = Command(c.words[1:], c.line, ";", c.raw)
        flat.append(c)
    pos = [0]

    def peek():
        return flat[pos[0]] if pos[0] < len(flat) else None

    def take():
        if pos[0] >= len(flat):
            raise AnalysisError("bash structure: unexpected end of block (unmatched keyword)")
        c = flat[pos[0]]
        pos[0] += 1
        return c

    def parse_seq(until):
        nodes = []
        while True:
            c = peek()
            if c is None or (c.name in until and not c.assigns):
                return ("seq", nodes)
            nodes.append(parse_one())

    def parse_one():
        c = take()
        sep = c.sep_before
        n = c.name
        if n == "if" and not c.assigns:
            pos[0] -= 1
            flat[pos[0]] = Command(c.words[1:], c.line, ";", c.raw) if len(c.words) > 1 else None
            if flat[pos[0]] is None:
                pos[0] += 1
            branches = []
            cond = parse_seq({"then"})
            take()
            body = parse_seq({"elif", "else", "fi"})
            branches.append((cond, body))
            els = None
            while True:
                k = take()
                if k.name == "elif":
                    if len(k.words) > 1:
                        pos[0] -= 1
                        flat[pos[0]] = Command(k.words[1:], k.line, ";", k.raw)
                    cond = parse_seq({"then"})
                    take()
                    body = parse_seq({"elif", "else", "fi"})
                    branches.append((cond, body))
                elif k.name == "else":
                    els = parse_seq({"fi"})
                else:
                    break
            node = ("if", branches, els)
        elif n in ("for", "while", "until", "select") and not c.assigns:
            if n != "for" and len(c.words) > 1:
                pos[0] -= 1
                flat[pos[0]] = Command(c.words[1:], c.line, ";", c.raw)
                head = parse_seq({"do"})
            else:
                head = ("seq", [("cmd", c, ";")])
                if peek() is not None and peek().name != "do":
                    head = ("seq", head[1] + parse_seq({"do"})[1])
            take()
            body = parse_seq({"done"})
            d = take() if peek() is not None else None
            node = ("loop", n, head, body)
        elif n == "{" and not c.assigns and len(c.words) == 1:
            body = parse_seq({"}"})
            if peek() is not None:
                take()
            node = ("group", body)
        elif n in cases:
            cs, ln = cases[n]
            arms = [(a.patterns, structure(a.body, a.line)) for a in cs.arms]
            node = ("case", cs, arms)
        else:
            node = ("cmd", c)
        return _chain(node, sep)

    def _chain(node, sep):
        return node + (sep,)

    # build with explicit and/or folding
    def fold(seq):
        kind, nodes = seq
        out_nodes = []
        for nd in nodes:
            sep = nd[-1]
            core = nd[:-1]
            core = _fold_children(core)
            if sep in ("&&", "||") and out_nodes:
                out_nodes[-1] = ("andor", out_nodes[-1], sep, core)
            else:
                out_nodes.append(core)
        return ("seq", out_nodes)

    def _fold_children(core):
        k = core[0]
        if k == "if":
            return ("if", [(fold(c_), fold(b_)) for c_, b_ in core[1]], fold(core[2]) if core[2] is not None else None)
        if k == "loop":
            return ("loop", core[1], fold(core[2]), fold(core[3]))
        if k == "group":
            return ("group", fold(core[1]))
        return core

    return fold(parse_seq(set()))


def effect_paths(tree, is_effect, terminal=("exit", "die", "return"), cap=3):
    """Set of (count, outcome) over the paths of ``tree``: outcome in fall|break|continue|exit.
    ``is_effect(Command) -> int`` counts the effect of a simple command (e.g. 1 for a reply write)."""

    def go(node):
        k = node[0]
        if k == "seq":
            states = {(0, "fall")}
            for ch in node[1]:
                nxt = set()
                sub = None
                for n_, o in states:
                    if o != "fall":
                        nxt.add((n_, o))
                        continue
                    if sub is None:
                        sub = go(ch)
                    for m, o2 in sub:
                        nxt.add((min(cap, n_ + m), o2))
                states = nxt
            return states
        if k == "cmd":
            c = node[1]
            if c.name in terminal:
                return {(0, "exit")}
            if c.name == "break":
                return {(0, "break")}
            if c.name == "continue":
                return {(0, "continue")}
            return {(min(cap, is_effect(c)), "fall")}
        if k == "group":
            return go(node[1])
        if k == "if":
            res = set()
            pre = {(0, "fall")}
            for cond, body in node[1]:
                cs = go(cond)
                new_pre = set()
                for n0, o0 in pre:
                    for n1, o1 in cs:
                        if o0 != "fall":
                            res.add((n0, o0))
                        elif o1 != "fall":
                            res.add((min(cap, n0 + n1), o1))
                        else:
                            for n2, o2 in go(body):
                                res.add((min(cap, n0 + n1 + n2), o2))
                            new_pre.add((min(cap, n0 + n1), "fall"))
                pre = new_pre
            if node[2] is not None:
                for n0, o0 in pre:
                    for n2, o2 in go(node[2]):
                        res.add((min(cap, n0 + n2), o2))
            else:
                res |= pre
            return res
        if k == "loop":
            head, body = go(node[2]), go(node[3])
            res = set()
            states = {(0, "fall")}
            for _ in range(cap + 1):
                nxt = set()
                for n0, o0 in states:
                    for n1, o1 in head:
                        if o1 != "fall":
                            res.add((min(cap, n0 + n1), o1))
                            continue
                        res.add((min(cap, n0 + n1), "fall"))  # condition false / items exhausted
                        for n2, o2 in body:
                            t = min(cap, n0 + n1 + n2)
                            if o2 in ("fall", "continue"):
                                nxt.add((t, "fall"))
                            elif o2 == "break":
                                res.add((t, "fall"))
                            else:
                                res.add((t, o2))
                if nxt <= states:
                    break
                states = nxt | states
            return res
        if k == "case":
            res = set()
            has_default = False
            for pats, body in node[2]:
                if "*" in pats:
                    has_default = True
                res |= go(body)
            if not has_default:
                res.add((0, "fall"))
            return res
        if k == "andor":
            left, right = go(node[1]), go(node[3])
            res = set()
            for n0, o0 in left:
                if o0 != "fall":
                    res.add((n0, o0))
                    continue
                res.add((n0, "fall"))
                for n1, o1 in right:
                    res.add((min(cap, n0 + n1), o1))
            return res
        raise AnalysisError(f"bash structure: unknown node {k}")

    return go(tree)
