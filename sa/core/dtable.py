"""Decision tables of small boolean functions by path enumeration over opaque predicates (DESIGN §2.7).

The function is walked statement by statement over an abstract boolean domain: the truth of each
opaque predicate (``child.match(...)``, ``self.negate``, emptiness of the child list) is fixed by the
row being enumerated, local variables hold abstract booleans / small ints, and the outcome of the
row is the abstract value returned.  Nothing of pkgcore is executed: the walk is over the AST and
understands exactly the statement and expression forms listed here; any other construct raises
AnalysisError (unknown idiom), never a verdict."""
from __future__ import annotations

import ast
import itertools

from .astutil import unparse
from .report import AnalysisError


class _Return(Exception):
    def __init__(self, value):
        self.value = value


class _Break(Exception):
    pass


class _Continue(Exception):
    pass


IMPLICIT_NONE = "<implicit None>"


class Walker:
    """``oracle(expr_node, env)`` decides opaque expressions: returns a bool/int, or NotImplemented."""

    def __init__(self, oracle, children_expr=("self.restrictions",), n_children=0):
        self.oracle = oracle
        self.children_expr = set(children_expr)
        self.n = n_children
        self.steps = 0

    def run(self, fn_node, env):
        try:
            self.block(fn_node.body, env)
        except _Return as r:
            return r.value
        return IMPLICIT_NONE

    def block(self, stmts, env):
        for st in stmts:
            self.stmt(st, env)

    def stmt(self, st, env):
        self.steps += 1
        if self.steps > 5000:
            raise AnalysisError("decision-table walk did not terminate")
        if isinstance(st, ast.Expr):
            if isinstance(st.value, ast.Constant):
                return
            self.ev(st.value, env)
            return
        if isinstance(st, ast.Return):
            raise _Return(self.ev(st.value, env) if st.value is not None else IMPLICIT_NONE)
        if isinstance(st, ast.If):
            if self.truth(self.ev(st.test, env)):
                self.block(st.body, env)
            else:
                self.block(st.orelse, env)
            return
        if isinstance(st, ast.Assign) and len(st.targets) == 1 and isinstance(st.targets[0], ast.Name):
            env[st.targets[0].id] = self.ev(st.value, env)
            return
        if isinstance(st, ast.AugAssign) and isinstance(st.target, ast.Name) and isinstance(st.op, ast.Add):
            env[st.target.id] = env[st.target.id] + self.ev(st.value, env)
            return
        if isinstance(st, ast.For) and unparse(st.iter) in self.children_expr and isinstance(st.target, ast.Name):
            broke = False
            for i in range(self.n):
                env[st.target.id] = ("child", i)
                try:
                    self.block(st.body, env)
                except _Continue:
                    continue
                except _Break:
                    broke = True
                    break
            if not broke:
                self.block(st.orelse, env)
            return
        if isinstance(st, ast.Continue):
            raise _Continue()
        if isinstance(st, ast.Break):
            raise _Break()
        if isinstance(st, ast.Pass):
            return
        if isinstance(st, ast.Raise):
            raise _Return(("raise", unparse(st.exc)[:40] if st.exc else ""))
        raise AnalysisError(f"decision table: statement form not understood: {unparse(st)[:60]}")

    def truth(self, v):
        if isinstance(v, (bool, int)):
            return bool(v)
        if v is None:
            return False
        if isinstance(v, tuple) and v and v[0] == "children":
            return self.n > 0
        raise AnalysisError(f"decision table: truth of {v!r} unknown")

    def ev(self, e, env):
        r = self.oracle(e, env, self)
        if r is not NotImplemented:
            return r
        if isinstance(e, ast.Constant):
            return e.value
        if isinstance(e, ast.Name):
            if e.id in env:
                return env[e.id]
            raise AnalysisError(f"decision table: free name {e.id}")
        if unparse(e) in self.children_expr:
            return ("children",)
        if isinstance(e, ast.UnaryOp) and isinstance(e.op, ast.Not):
            return not self.truth(self.ev(e.operand, env))
        if isinstance(e, ast.UnaryOp) and isinstance(e.op, ast.USub):
            v = self.ev(e.operand, env)
            if isinstance(v, (int, bool)):
                return -int(v)
            raise AnalysisError(f"decision table: negation of opaque value {unparse(e)}")
        if isinstance(e, ast.BoolOp):
            if isinstance(e.op, ast.And):
                v = True
                for x in e.values:
                    v = self.ev(x, env)
                    if not self.truth(v):
                        return v
                return v
            v = False
            for x in e.values:
                v = self.ev(x, env)
                if self.truth(v):
                    return v
            return v
        if isinstance(e, ast.Compare) and len(e.ops) == 1:
            l, r_ = self.ev(e.left, env), self.ev(e.comparators[0], env)
            op = e.ops[0]
            table = {ast.Eq: lambda a, b: a == b, ast.NotEq: lambda a, b: a != b, ast.Lt: lambda a, b: a < b, ast.LtE: lambda a, b: a <= b,
                     ast.Gt: lambda a, b: a > b, ast.GtE: lambda a, b: a >= b, ast.Is: lambda a, b: a is b, ast.IsNot: lambda a, b: a is not b}
            f = table.get(type(op))
            if f is None:
                raise AnalysisError(f"decision table: comparison {unparse(e)} not understood")
            if isinstance(l, tuple) or isinstance(r_, tuple):
                raise AnalysisError(f"decision table: comparison of opaque values {unparse(e)}")
            return f(l, r_)
        if isinstance(e, ast.IfExp):
            return self.ev(e.body, env) if self.truth(self.ev(e.test, env)) else self.ev(e.orelse, env)
        if isinstance(e, ast.Call) and isinstance(e.func, ast.Name) and e.func.id in ("all", "any", "sum") and len(e.args) == 1:
            g = e.args[0]
            if isinstance(g, (ast.GeneratorExp, ast.ListComp)) and len(g.generators) == 1:
                gen = g.generators[0]
                if unparse(gen.iter) in self.children_expr and isinstance(gen.target, ast.Name):
                    vals = []
                    for i in range(self.n):
                        env2 = dict(env)
                        env2[gen.target.id] = ("child", i)
                        if all(self.truth(self.ev(c, env2)) for c in gen.ifs):
                            vals.append(self.ev(g.elt, env2))
                    if e.func.id == "all":
                        return all(self.truth(v) for v in vals)
                    if e.func.id == "any":
                        return any(self.truth(v) for v in vals)
                    return sum(int(self.truth(v)) if isinstance(v, bool) else v for v in vals)
        if isinstance(e, ast.Call) and isinstance(e.func, ast.Name) and e.func.id == "len" and len(e.args) == 1 and unparse(e.args[0]) in self.children_expr:
            return self.n
        if isinstance(e, ast.Call) and isinstance(e.func, ast.Name) and e.func.id == "bool" and len(e.args) == 1:
            return self.truth(self.ev(e.args[0], env))
        raise AnalysisError(f"decision table: expression form not understood: {unparse(e)[:60]}")


def boolean_node_table(fn_node, child_pred, max_n=3, extra_atoms=(), children_expr=("self.restrictions",)):
    """Rows ((n, outcomes, negate, extra...), result) for a boolean-node ``match`` method.

    ``child_pred(call_node)`` says whether a Call is the child predicate (``<loopvar>.match(...)``)."""
    rows = []
    for n in range(max_n + 1):
        for outcomes in itertools.product([False, True], repeat=n):
            for negate in (False, True):
                for extras in itertools.product([False, True], repeat=len(extra_atoms)):
                    ex = dict(zip(extra_atoms, extras))

                    def oracle(e, env, w, outcomes=outcomes, negate=negate, ex=ex):
                        txt = unparse(e)
                        if txt == "self.negate":
                            return negate
                        if txt in ex:
                            return ex[txt]
                        if isinstance(e, ast.Call) and child_pred(e):
                            recv = e.func.value
                            if isinstance(recv, ast.Name) and isinstance(env.get(recv.id), tuple) and env[recv.id][0] == "child":
                                return outcomes[env[recv.id][1]]
                            raise AnalysisError(f"decision table: child predicate on unknown receiver {txt}")
                        return NotImplemented

                    w = Walker(oracle, children_expr, n)
                    params = [a.arg for a in fn_node.args.args]
                    env = {p: ("param", p) for p in params}
                    res = w.run(fn_node, env)
                    rows.append(((n, outcomes, negate, tuple(sorted(ex.items()))), res))
    return rows
