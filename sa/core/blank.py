"""One notion of "blank" per text.

When a function tokenises a text with ``text.split()`` (no argument: any run of whitespace separates tokens), every
*other* question it asks of the same text about token boundaries must use the same notion.  A test such as
``" -> " in text`` sees only the ASCII space; a token delimited by a tab or a newline is a token for the tokeniser and
invisible to the test.  The two disagree exactly on inputs the unit tests rarely contain (line-wrapped values)."""
from __future__ import annotations

import ast


def split_on_any_blank(fn_node):
    """names of variables ``v`` with a ``v.split()`` call (no separator) in the function"""
    out = set()
    for n in ast.walk(fn_node):
        if isinstance(n, ast.Call) and isinstance(n.func, ast.Attribute) and n.func.attr == "split" and not n.args and not n.keywords \
                and isinstance(n.func.value, ast.Name):
            out.add(n.func.value.id)
    return out


def _has_space_literal(e):
    return isinstance(e, ast.Constant) and isinstance(e.value, str) and " " in e.value and e.value.strip() != ""


def space_literal_tests(fn_node):
    """[(node, variable, literal)]: questions asked of a split()-tokenised text with a literal that spells a blank as ' '"""
    texts = split_on_any_blank(fn_node)
    out = []
    if not texts:
        return out
    for n in ast.walk(fn_node):
        if isinstance(n, ast.Compare) and len(n.ops) == 1 and isinstance(n.ops[0], (ast.In, ast.NotIn)) and _has_space_literal(n.left) \
                and isinstance(n.comparators[0], ast.Name) and n.comparators[0].id in texts:
            out.append((n, n.comparators[0].id, n.left.value))
        elif isinstance(n, ast.Call) and isinstance(n.func, ast.Attribute) and isinstance(n.func.value, ast.Name) and n.func.value.id in texts \
                and n.func.attr in ("find", "rfind", "index", "rindex", "count", "startswith", "endswith", "partition", "rpartition", "split", "rsplit", "replace") \
                and n.args and _has_space_literal(n.args[0]):
            out.append((n, n.func.value.id, n.args[0].value))
    return out
