"""Alias capture: state handed out by reference in __init__ must keep its identity.

If ``__init__`` passes ``self.a.b`` (or ``self.a``) into an object that the instance keeps (a filter, a wrapper, a
closure), that object holds a reference to the *current* ``self.a``.  Rebinding ``self.a`` later (``self.a = New()``)
silently detaches the keeper from the live state: the two sites each look fine alone."""
from __future__ import annotations

import ast

from . import astutil as A


def captured(cls_info):
    """{attr: [(node, description)]} — attributes of self whose (sub)object is passed into a call in __init__"""
    init = cls_info.methods.get("__init__")
    out = {}
    if init is None:
        return out
    me = init.params()[0]
    assigned = set()
    for n in A.body_walk(init.node):
        if isinstance(n, ast.Assign):
            for t in n.targets:
                a = A.self_attr(t, me)
                if a:
                    assigned.add(a)
    for c in A.calls(init.node):
        for arg in list(c.args) + [k.value for k in c.keywords]:
            e = arg
            chain = []
            while isinstance(e, ast.Attribute):
                chain.append(e.attr)
                e = e.value
            if isinstance(e, ast.Name) and e.id == me and len(chain) >= 2:
                root = chain[-1]
                if root in assigned:
                    out.setdefault(root, []).append((c, f"`{A.unparse(arg)}` is handed to `{A.unparse(c.func)}(...)`"))
    return out


def rebinds(cls_info, attr):
    """[(FuncInfo, node)] assignments ``self.<attr> = ...`` outside __init__ / __setstate__"""
    out = []
    for name, m in cls_info.methods.items():
        if name in ("__init__", "__setstate__", "__new__"):
            continue
        ps = m.params()
        if not ps:
            continue
        for n in A.body_walk(m.node):
            tg = n.targets if isinstance(n, ast.Assign) else ([n.target] if isinstance(n, (ast.AugAssign, ast.AnnAssign)) else [])
            for t in tg:
                for x in (t.elts if isinstance(t, (ast.Tuple, ast.List)) else [t]):
                    if A.self_attr(x, ps[0]) == attr:
                        out.append((m, n))
    return out
