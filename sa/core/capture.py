"""Alias capture: state handed out by reference in __init__ must keep its identity.

If ``__init__`` passes ``self.a.b`` (or ``self.a``) into an object that the instance keeps (a filter, a wrapper, a
closure), that object holds a reference to the *current* ``self.a``.  Rebinding ``self.a`` later (``self.a = New()``)
silently detaches the keeper from the live state: the two sites each look fine alone."""
from __future__ import annotations

import ast

from . import astutil as A


def captured(cls_info):
    """{attr: [(node, description)]} — attributes of self whose (sub)object is passed into a call in __init__"""
    init = cls_info.methods.get("__init__")
    out = {}
    if init is None:
        return out
    me = init.params()[0]
    assigned = set()
    for n in A.body_walk(init.node):
        if isinstance(n, ast.Assign):
            for t in n.targets:
                a = A.self_attr(t, me)
                if a:
                    assigned.add(a)
    for c in A.calls(init.node):
        for arg in list(c.args) + [k.value for k in c.keywords]:
            e = arg
            chain = []
            while isinstance(e, ast.Attribute):
                chain.append(e.attr)
                e = e.value
            if isinstance(e, ast.Name) and e.id == me and len(chain) >= 2:
                root = chain[-1]
                if root in assigned:
                    out.setdefault(root, []).append((c, f"`{A.unparse(arg)}` is handed to `{A.unparse(c.func)}(...)`"))
    return out


def rebinds(cls_info, attr):
    """[(FuncInfo, node)] assignments ``self.<attr> = ...`` outside __init__ / __setstate__"""
    out = []
    for name, m in cls_info.methods.items():
        if name in ("__init__", "__setstate__", "__new__"):
            continue
        ps = m.params()
        if not ps:
            continue
        for n in A.body_walk(m.node):
            tg = n.targets if isinstance(n, ast.Assign) else ([n.target] if isinstance(n, (ast.AugAssign, ast.AnnAssign)) else [])
            for t in tg:
                for x in (t.elts if isinstance(t, (ast.Tuple, ast.List)) else [t]):
                    if A.self_attr(x, ps[0]) == attr:
                        out.append((m, n))
    return out


_COPYING = {"len", "isinstance", "tuple", "list", "set", "frozenset", "sorted", "dict", "str", "int", "bool", "any", "all", "sum", "min", "max",
            "repr", "hash", "id", "print", "getattr", "hasattr", "pjoin", "abspath", "normpath", "format", "join"}


def kept_by_reference(cls_info):
    """{attr: [(keeper_attr, stmt)]} — ``self.keeper = F(... self.attr ...)`` in __init__ where F is not a copying builtin and
    the argument is not star-expanded: the keeper object holds the *object* currently bound to ``self.attr``."""
    init = cls_info.methods.get("__init__")
    out = {}
    if init is None or not init.params():
        return out
    me = init.params()[0]
    for st in A.body_walk(init.node):
        if not (isinstance(st, ast.Assign) and isinstance(st.value, ast.Call)):
            continue
        keepers = [A.self_attr(t, me) for t in st.targets if A.self_attr(t, me)]
        if not keepers:
            continue

        def visit(call):
            fn = A.unparse(call.func).split(".")[-1]
            if fn in _COPYING:
                return
            for arg in list(call.args) + [k.value for k in call.keywords]:
                if isinstance(arg, ast.Starred):
                    continue
                a = A.self_attr(arg, me)
                if a and a not in keepers:
                    for k in keepers:
                        out.setdefault(a, []).append((k, st))
                elif isinstance(arg, ast.Call):
                    visit(arg)
        visit(st.value)
    return out


def _immutable_init(cls_info, attr):
    init = cls_info.methods["__init__"]
    me = init.params()[0]
    for st in A.body_walk(init.node):
        if isinstance(st, ast.Assign) and any(A.self_attr(t, me) == attr for t in st.targets):
            v = st.value
            if isinstance(v, (ast.Tuple, ast.Constant)) or (isinstance(v, ast.Call) and A.unparse(v.func) in ("tuple", "frozenset", "str", "int")):
                return True
    return False


def detached_keepers(cls_info):
    """[(FuncInfo, node, attr, keeper)] — a method other than __init__ rebinds ``self.attr`` (``=`` or an augmented assignment on an
    immutable such as a tuple) while the keeper built from it in __init__ is not rebuilt in the same method: the keeper
    goes on using the object it was given and never sees the new value."""
    out = []
    kept = kept_by_reference(cls_info)
    for attr, ks in kept.items():
        for m, n in rebinds(cls_info, attr):
            me = m.params()[0]
            if isinstance(n, ast.AugAssign) and not _immutable_init(cls_info, attr):
                continue  # `+=` on a list / set / dict updates the captured object in place
            rebuilt = {A.self_attr(t, me) for s in A.body_walk(m.node) if isinstance(s, ast.Assign) for t in s.targets}
            for keeper, st in ks:
                if keeper not in rebuilt:
                    out.append((m, n, attr, keeper))
    return out
