"""Equality / hash / match field-set engine (DESIGN §2.5).

For a class K resolved through the repo's own class hierarchy:
  eq_spec(K)   which attributes ``==`` compares (and through which normaliser call),
  hash_spec(K) which attributes ``hash()`` reads,
  reads(K, methods) attributes read by the named methods (transitively through self.m()).
Library facts (snakeoil, trusted base): ``GenericEquality.__eq__`` compares the attributes in
``__attr_comparison__``; a class body defining ``__eq__`` without ``__hash__`` is unhashable;
``klass.reflective_hash(attr)`` returns ``self.<attr>``."""
from __future__ import annotations

import ast

from . import astutil as A
from .model import ClassInfo, FuncInfo, dotted

GENERIC_EQ = ("GenericEquality",)


def _is_generic_eq(name):
    return isinstance(name, str) and name.split(".")[-1] in GENERIC_EQ


class Engine:
    def __init__(self, program):
        self.P = program

    # -- attribute reads of a function on its first parameter -----------------
    def self_reads(self, fi: FuncInfo, cls: ClassInfo | None, depth=3, _seen=None, param=None):
        """{attr: set(wrapper-call-names)} read on the receiver, closed over self.m() helpers."""
        _seen = _seen if _seen is not None else set()
        if fi.fq in _seen:
            return {}
        _seen.add(fi.fq)
        ps = fi.params()
        if not ps and param is None:
            return {}
        me = param or ps[0]
        out = {}
        for n in A.body_walk(fi.node):
            if isinstance(n, ast.Attribute) and isinstance(n.value, ast.Name) and n.value.id == me and isinstance(n.ctx, ast.Load):
                par = getattr(n, "_parent", None)
                # method call on self -> follow
                if isinstance(par, ast.Call) and par.func is n and cls is not None and depth > 0:
                    owner, target = self.P.lookup_attr(cls, n.attr)
                    if isinstance(target, FuncInfo):
                        sub_param = None
                        deco = [dotted(d) for d in target.node.decorator_list]
                        if "staticmethod" in deco:
                            # self._helper(self): map first parameter when self is passed
                            idx = [i for i, a in enumerate(par.args) if isinstance(a, ast.Name) and a.id == me]
                            if idx and idx[0] < len(target.params()):
                                sub_param = target.params()[idx[0]]
                            else:
                                continue
                        for k, v in self.self_reads(target, cls, depth - 1, _seen, sub_param).items():
                            out.setdefault(k, set()).update(v | {"via:" + target.name})
                        continue
                if cls is not None and depth > 0:
                    owner, target = self.P.lookup_attr(cls, n.attr)
                    if isinstance(target, FuncInfo) and any(
                        (dotted(d) or "").split(".")[-1] in ("property", "jit_attr", "jit_attr_none", "cached_property")
                        for d in target.node.decorator_list
                    ):
                        for k, v in self.self_reads(target, cls, depth - 1, _seen).items():
                            out.setdefault(k, set()).update(v)
                        continue
                wrap = None
                if isinstance(par, ast.Call) and n in par.args:
                    wrap = dotted(par.func) or "<call>"
                elif isinstance(par, ast.Call) and isinstance(par.func, ast.Attribute) and par.func.value is n:
                    wrap = "." + par.func.attr
                out.setdefault(n.attr, set())
                if wrap:
                    out[n.attr].add(wrap)
            elif isinstance(n, ast.Call) and dotted(n.func) == "getattr" and len(n.args) >= 2:
                if isinstance(n.args[0], ast.Name) and n.args[0].id == me and isinstance(n.args[1], ast.Constant):
                    out.setdefault(n.args[1].value, set())
        return out

    # -- equality ------------------------------------------------------------------
    def attr_comparison(self, K: ClassInfo):
        owner, node = self.P.lookup_attr(K, "__attr_comparison__")
        if node is None or isinstance(node, FuncInfo):
            return None, None
        if isinstance(node, ast.Name) and node.id == "__slots__":
            node = owner.assigns.get("__slots__")
        val = A.try_literal(node)
        if isinstance(val, (tuple, list)) and all(isinstance(x, str) for x in val):
            return owner, tuple(val)
        return owner, None

    def eq_spec(self, K: ClassInfo, forK=None, _depth=0):
        forK = forK or K
        for c in self.P.mro(K):
            if isinstance(c, ClassInfo):
                if "__eq__" in c.methods:
                    fi = c.methods["__eq__"]
                    reads = self.self_reads(fi, forK)
                    return {"kind": "custom", "fields": set(reads), "wrappers": reads, "via": fi, "owner": c}
                if "__eq__" in c.assigns:
                    d = dotted(c.assigns["__eq__"])
                    if d and d.endswith(".__eq__") and _depth < 4:
                        tgt = self.P.resolve_name(c.module, d[: -len(".__eq__")])
                        if isinstance(tgt, ClassInfo):
                            return self.eq_spec(tgt, forK, _depth + 1)
                    return {"kind": "unknown", "fields": set(), "wrappers": {}, "via": None, "owner": c}
                if "__cmp__" in c.methods and any(
                    "inject_richcmp_methods_from_cmp" in A.unparse(s) for s in c.node.body if isinstance(s, ast.Expr)
                ):
                    # atom: rich comparisons injected from __cmp__ but __eq__/__ne__ popped again
                    popped = any("pop('__eq__'" in A.unparse(s) for s in c.node.body if isinstance(s, ast.Expr))
                    if not popped:
                        fi = c.methods["__cmp__"]
                        reads = self.self_reads(fi, K)
                        return {"kind": "custom", "fields": set(reads), "wrappers": reads, "via": fi, "owner": c}
            elif _is_generic_eq(c):
                owner, fields = self.attr_comparison(forK)
                if fields is None:
                    return {"kind": "unknown", "fields": set(), "wrappers": {}, "via": None, "owner": owner}
                return {"kind": "fields", "fields": set(fields), "wrappers": {f: set() for f in fields}, "via": None, "owner": owner}
        return {"kind": "identity", "fields": set(), "wrappers": {}, "via": None, "owner": None}

    # -- hash ------------------------------------------------------------------------
    def hash_spec(self, K: ClassInfo, _depth=0):
        for c in self.P.mro(K):
            if isinstance(c, ClassInfo):
                if "__hash__" in c.methods:
                    fi = c.methods["__hash__"]
                    reads = self.self_reads(fi, K)
                    if "__attr_comparison__" in reads:
                        # idiom: hash(tuple(getattr(self, x) for x in self.__attr_comparison__ ...))
                        _, fields = self.attr_comparison(K)
                        if fields is None:
                            return {"kind": "unknown", "fields": set(), "wrappers": {}, "via": fi, "owner": c}
                        skip = {x for x in A.str_constants(fi.node)}
                        fs = {f for f in fields if f not in skip}
                        extra = {k: v for k, v in reads.items() if k != "__attr_comparison__"}
                        w = {f: set() for f in fs}
                        w.update(extra)
                        return {"kind": "fields", "fields": set(w), "wrappers": w, "via": fi, "owner": c, "over_attr_comparison": True}
                    return {"kind": "fields", "fields": set(reads), "wrappers": reads, "via": fi, "owner": c}
                if "__hash__" in c.assigns:
                    return self._hash_alias(K, c, c.assigns["__hash__"], _depth)
                if "__eq__" in c.methods or "__eq__" in c.assigns:
                    return {"kind": "unhashable", "fields": set(), "wrappers": {}, "via": None, "owner": c}
            elif _is_generic_eq(c):
                return {"kind": "unhashable", "fields": set(), "wrappers": {}, "via": None, "owner": None}
        return {"kind": "identity", "fields": set(), "wrappers": {}, "via": None, "owner": None}

    def _hash_alias(self, K, owner, node, _depth):
        d = dotted(node)
        if d == "object.__hash__":
            return {"kind": "identity", "fields": set(), "wrappers": {}, "via": None, "owner": owner}
        if isinstance(node, ast.Constant) and node.value is None:
            return {"kind": "unhashable", "fields": set(), "wrappers": {}, "via": None, "owner": owner}
        if isinstance(node, ast.Call) and (dotted(node.func) or "").endswith("reflective_hash") and node.args:
            attr = A.try_literal(node.args[0])
            return self._stored_hash(K, owner, attr)
        if d and d.endswith(".__hash__") and _depth < 4:
            tgt = self.P.resolve_name(owner.module, d[: -len(".__hash__")])
            if isinstance(tgt, ClassInfo):
                r = self.hash_spec(tgt, _depth + 1)
                r = dict(r)
                r["alias_of"] = tgt
                return r
            return {"kind": "external", "fields": set(), "wrappers": {}, "via": None, "owner": owner, "name": d}
        return {"kind": "unknown", "fields": set(), "wrappers": {}, "via": None, "owner": owner}

    def _stored_hash(self, K, owner, attr):
        """``self.<attr> = <expr>`` (or sf(self, "<attr>", expr)) in an __init__ along the MRO."""
        for c in self.P.mro(K):
            if not isinstance(c, ClassInfo):
                continue
            for mname in ("__init__", "__new__"):
                init = c.methods.get(mname)
                if init is None:
                    continue
                me = init.params()[0] if init.params() else "self"
                for n in A.body_walk(init.node):
                    expr = None
                    if isinstance(n, ast.Assign) and any(A.self_attr(t, me) == attr for t in n.targets):
                        expr = n.value
                    elif (
                        isinstance(n, ast.Call)
                        and len(n.args) == 3
                        and isinstance(n.args[0], ast.Name)
                        and n.args[0].id == me
                        and A.is_const(n.args[1], attr)
                    ):
                        expr = n.args[2]
                    if expr is not None:
                        fields, params = self._expr_sources(init, me, expr)
                        return {
                            "kind": "stored",
                            "fields": fields,
                            "params": params,
                            "expr": expr,
                            "wrappers": {f: set() for f in fields},
                            "via": init,
                            "owner": c,
                        }
        return {"kind": "unknown", "fields": set(), "wrappers": {}, "via": None, "owner": owner}

    def _expr_sources(self, init, me, expr):
        """attributes of self and raw parameters/locals an expression reads"""
        fields, names = set(), set()
        for n in ast.walk(expr):
            if isinstance(n, ast.Attribute) and isinstance(n.value, ast.Name) and n.value.id == me:
                fields.add(n.attr)
            elif isinstance(n, ast.Name) and n.id != me and isinstance(n.ctx, ast.Load):
                names.add(n.id)
        names -= {"hash", "tuple", "frozenset", "sorted", "str", "int", "id", "len", "repr"}
        # str(self) / repr(self) / f"{self}" read whatever __str__/__repr__ read
        for n in ast.walk(expr):
            via = None
            if isinstance(n, ast.Call) and dotted(n.func) in ("str", "repr", "format") and n.args and isinstance(n.args[0], ast.Name) and n.args[0].id == me:
                via = "__repr__" if dotted(n.func) == "repr" else "__str__"
            elif isinstance(n, ast.FormattedValue) and isinstance(n.value, ast.Name) and n.value.id == me:
                via = "__repr__" if n.conversion == 114 else "__str__"
            if via and init.cls is not None:
                _, fi = self.P.lookup_attr(init.cls, via)
                if isinstance(fi, FuncInfo):
                    fields |= set(self.self_reads(fi, init.cls))
        return fields, names

    # -- attributes read by behaviour methods ---------------------------------------------
    def reads(self, K: ClassInfo, methods):
        out = {}
        for m in methods:
            owner, fi = self.P.lookup_attr(K, m)
            if isinstance(fi, FuncInfo):
                for k, v in self.self_reads(fi, K).items():
                    out.setdefault(k, set()).update(v)
        return out

    def init_derivations(self, K: ClassInfo):
        """attr -> set of parameter / attribute names its __init__ definition reads (first level)."""
        out = {}
        for c in self.P.mro(K):
            if not isinstance(c, ClassInfo):
                continue
            init = c.methods.get("__init__")
            if init is None:
                continue
            me = init.params()[0] if init.params() else "self"
            for n in A.body_walk(init.node):
                pairs = []
                if isinstance(n, ast.Assign):
                    for t in n.targets:
                        pairs.extend(A._pair(t, n.value, n))
                elif isinstance(n, ast.Call) and len(n.args) == 3 and isinstance(n.args[0], ast.Name) and n.args[0].id == me and isinstance(n.args[1], ast.Constant):
                    out.setdefault(n.args[1].value, set()).update(
                        {x.id for x in ast.walk(n.args[2]) if isinstance(x, ast.Name)} | A.attrs_of(n.args[2], me)
                    )
                for t, v, _ in pairs:
                    a = A.self_attr(t, me)
                    if a:
                        out.setdefault(a, set()).update({x.id for x in ast.walk(v) if isinstance(x, ast.Name)} | A.attrs_of(v, me))
            break
        return out


def eq_true_paths(fi: FuncInfo):
    """For a custom __eq__: [(return-node, {self attrs compared on that path})] for every return that can
    yield a truthy value.  Path attrs = attrs read in the return expression and in the tests of all
    enclosing ``if`` statements (arms entered by a true OR false outcome both constrain the path)."""
    me = fi.params()[0]
    out = []
    for r in A.returns(fi.node):
        v = r.value
        if v is None or (isinstance(v, ast.Constant) and not v.value):
            continue
        if isinstance(v, ast.Name) and v.id == "NotImplemented":
            continue
        fields = set(A.attrs_of(v, me))
        for p in A.parents(r):
            if p is fi.node:
                break
            if isinstance(p, ast.If):
                fields |= A.attrs_of(p.test, me)
        out.append((r, fields))
    return out
