"""Statement-granular control-flow graph for one function (DESIGN §2.2).

Nodes are statements (compound statements contribute their *header*: the ``if``/``while`` test,
the ``for`` iterator, the ``with`` items).  Edge labels: None (sequential), True/False (test
outcome), "body"/"exit" (for), "exc" (into an ``except`` handler), "fin" (into/out of finally).
Exceptional edges: explicit ``raise`` -> innermost matching handlers or RAISE exit; every statement
in a ``try`` body -> each of its handlers (coarse but sound for must-rules)."""
from __future__ import annotations

import ast
from collections import deque


class Node:
    __slots__ = ("id", "ast", "kind", "succ", "pred")

    def __init__(self, id, ast_node, kind):
        self.id, self.ast, self.kind = id, ast_node, kind
        self.succ = []  # (Node, label)
        self.pred = []  # (Node, label)

    @property
    def line(self):
        return getattr(self.ast, "lineno", None)

    def __repr__(self):
        return f"<{self.kind}#{self.id}@{self.line}>"


class CFG:
    def __init__(self, fn_node):
        self.fn = fn_node
        self.nodes = []
        self.entry = self._new(None, "entry")
        self.exit = self._new(None, "exit")  # normal return / fall off the end
        self.raise_exit = self._new(None, "raise")  # exception leaves the function
        self._by_ast = {}
        b = _Builder(self)
        tails = b.block(fn_node.body, [(self.entry, None)])
        for t, lab in tails:
            self._edge(t, self.exit, lab)

    # construction ----------------------------------------------------
    def _new(self, ast_node, kind):
        n = Node(len(self.nodes), ast_node, kind)
        self.nodes.append(n)
        if ast_node is not None:
            self._by_ast.setdefault(id(ast_node), n)
        return n

    def _edge(self, a, b, label=None):
        if (b, label) not in a.succ:
            a.succ.append((b, label))
            b.pred.append((a, label))

    # lookup ------------------------------------------------------------
    def node_of(self, ast_node):
        """CFG node of a statement, or of the statement enclosing an expression."""
        n = ast_node
        while n is not None:
            hit = self._by_ast.get(id(n))
            if hit is not None:
                return hit
            n = getattr(n, "_parent", None)
        return None

    def stmt_nodes(self):
        return [n for n in self.nodes if n.ast is not None]

    def select(self, pred):
        return [n for n in self.nodes if n.ast is not None and pred(n)]

    # queries -----------------------------------------------------------
    def reach(self, starts, avoid=None, edge_ok=None, include_start=False):
        """Nodes reachable from ``starts`` (successors thereof) without entering ``avoid`` nodes."""
        seen = set()
        dq = deque()
        for s in starts:
            if include_start:
                if not (avoid and avoid(s)):
                    seen.add(s)
            dq.append(s)
        out = set(seen)
        visited_src = set()
        while dq:
            n = dq.popleft()
            if n in visited_src:
                continue
            visited_src.add(n)
            for m, lab in n.succ:
                if edge_ok and not edge_ok(n, m, lab):
                    continue
                if avoid and avoid(m):
                    continue
                if m not in out:
                    out.add(m)
                dq.append(m)
        return out

    def find_path(self, starts, goal, avoid=None, edge_ok=None):
        """Shortest path (list of nodes) from any start to a node satisfying ``goal`` that does not
        enter ``avoid`` nodes (the start itself is exempt).  None when no such path exists."""
        prev = {}
        dq = deque()
        for s in starts:
            prev[s] = None
            dq.append(s)
        while dq:
            n = dq.popleft()
            for m, lab in n.succ:
                if edge_ok and not edge_ok(n, m, lab):
                    continue
                if m in prev:
                    continue
                if avoid and avoid(m) and not goal(m):
                    continue
                prev[m] = n
                if goal(m):
                    path = [m]
                    while prev[path[-1]] is not None:
                        path.append(prev[path[-1]])
                    return list(reversed(path))
                if avoid and avoid(m):
                    continue
                dq.append(m)
        return None

    def must_pass(self, starts, goal, via, edge_ok=None):
        """True iff every path from ``starts`` to a ``goal`` node passes a ``via`` node in between.
        Returns (ok, witness_path)."""
        p = self.find_path(starts, goal, avoid=via, edge_ok=edge_ok)
        if p is not None and via(p[-1]) and goal(p[-1]):
            # goal that is itself a via node counts as passing
            return True, None
        return (p is None), p

    def dominators(self):
        """node -> set of dominators (iterative; graphs here are < 300 nodes)."""
        nodes = [n for n in self.nodes if n is self.entry or n.pred]
        full = set(nodes)
        dom = {n: set(full) for n in nodes}
        dom[self.entry] = {self.entry}
        changed = True
        while changed:
            changed = False
            for n in nodes:
                if n is self.entry:
                    continue
                ps = [dom[p] for p, _ in n.pred if p in dom]
                new = set.intersection(*ps) if ps else set()
                new = new | {n}
                if new != dom[n]:
                    dom[n] = new
                    changed = True
        return dom

    def fmt_path(self, path, relpath=""):
        out = []
        for n in path:
            if n.ast is None:
                out.append(n.kind.upper())
            else:
                out.append(f"{relpath}:{n.line}")
        return " -> ".join(out)


class _Builder:
    def __init__(self, g: CFG):
        self.g = g
        self.loops = []  # (head_node, break_tails list)
        self.handlers = []  # stack of lists of handler entry nodes (innermost last)
        self.finals = []  # stack of dicts for try/finally: {"entry": node list of pending}

    def connect(self, tails, node):
        for t, lab in tails:
            self.g._edge(t, node, lab)

    def block(self, stmts, tails):
        for st in stmts:
            tails = self.stmt(st, tails)
        return tails

    def _exc_targets(self):
        """Where an exception raised here may go: innermost handlers, else function raise exit."""
        out = []
        for hs, catch_all in reversed(self.handlers):
            out.extend(hs)
            if catch_all:
                return out
        out.append(self.g.raise_exit)
        return out

    def _register_in_try(self, node):
        # any statement inside a try body may raise into that try's handlers
        if self.handlers:
            for h in self.handlers[-1][0]:
                self.g._edge(node, h, "exc")

    def stmt(self, st, tails):
        g = self.g
        if isinstance(st, ast.If):
            n = g._new(st, "if")
            self.connect(tails, n)
            self._register_in_try(n)
            t_tails = self.block(st.body, [(n, True)])
            f_tails = self.block(st.orelse, [(n, False)]) if st.orelse else [(n, False)]
            return t_tails + f_tails
        if isinstance(st, ast.While):
            n = g._new(st, "while")
            self.connect(tails, n)
            self._register_in_try(n)
            self.loops.append((n, []))
            b_tails = self.block(st.body, [(n, True)])
            self.connect(b_tails, n)
            _, breaks = self.loops.pop()
            infinite = isinstance(st.test, ast.Constant) and bool(st.test.value)
            out = [] if infinite else [(n, False)]
            if st.orelse:
                out = self.block(st.orelse, out)
            return out + breaks
        if isinstance(st, (ast.For, ast.AsyncFor)):
            n = g._new(st, "for")
            self.connect(tails, n)
            self._register_in_try(n)
            self.loops.append((n, []))
            b_tails = self.block(st.body, [(n, "body")])
            self.connect(b_tails, n)
            _, breaks = self.loops.pop()
            out = [(n, "exit")]
            if st.orelse:
                out = self.block(st.orelse, out)
            return out + breaks
        if isinstance(st, (ast.With, ast.AsyncWith)):
            n = g._new(st, "with")
            self.connect(tails, n)
            self._register_in_try(n)
            return self.block(st.body, [(n, None)])
        if isinstance(st, ast.Try) or st.__class__.__name__ == "TryStar":
            return self.try_(st, tails)
        if isinstance(st, ast.Return):
            n = g._new(st, "return")
            self.connect(tails, n)
            self._register_in_try(n)
            self._abrupt(n, g.exit)
            return []
        if isinstance(st, ast.Raise):
            n = g._new(st, "raise_stmt")
            self.connect(tails, n)
            # NB: a raise inside try/finally skips the finally body in this model (documented limit)
            for t in self._exc_targets():
                g._edge(n, t, "exc")
            return []
        if isinstance(st, ast.Break):
            n = g._new(st, "break")
            self.connect(tails, n)
            if self.loops:
                self.loops[-1][1].append((n, None))
            return []
        if isinstance(st, ast.Continue):
            n = g._new(st, "continue")
            self.connect(tails, n)
            if self.loops:
                g._edge(n, self.loops[-1][0], None)
            return []
        if isinstance(st, ast.Match):
            n = g._new(st, "match")
            self.connect(tails, n)
            self._register_in_try(n)
            out = []
            exhaustive = False
            for case in st.cases:
                out += self.block(case.body, [(n, "case")])
                if isinstance(case.pattern, ast.MatchAs) and case.pattern.pattern is None and case.guard is None:
                    exhaustive = True
            if not exhaustive:
                out.append((n, "nomatch"))
            return out
        # simple statement (incl. nested def/class as opaque)
        n = g._new(st, "stmt")
        self.connect(tails, n)
        self._register_in_try(n)
        return [(n, None)]

    def _abrupt(self, node, target):
        """return / uncaught raise: route through enclosing finally blocks when present."""
        if self.finals:
            fin = self.finals[-1]
            fin["pending"].append((node, target))
        else:
            self.g._edge(node, target, None)

    def try_(self, st, tails):
        g = self.g
        has_final = bool(st.finalbody)
        if has_final:
            self.finals.append({"pending": []})
        # handler entry nodes
        h_nodes = []
        for h in st.handlers:
            hn = g._new(h, "except")
            h_nodes.append(hn)
        if st.handlers:
            catch_all = any(
                h.type is None or (isinstance(h.type, ast.Name) and h.type.id in ("Exception", "BaseException"))
                for h in st.handlers
            )
            self.handlers.append((h_nodes, catch_all))
        body_tails = self.block(st.body, tails)
        if st.handlers:
            self.handlers.pop()
        else_tails = self.block(st.orelse, body_tails) if st.orelse else body_tails
        out = list(else_tails)
        for h, hn in zip(st.handlers, h_nodes):
            out += self.block(h.body, [(hn, None)])
        if has_final:
            fin = self.finals.pop()
            # build the finally body once; all ways in, all ways out (over-approximation of paths)
            f_entry_tails = out + [(n, "fin") for n, _ in fin["pending"]]
            if not f_entry_tails:
                return []
            f_tails = self.block(st.finalbody, f_entry_tails)
            res = []
            if out:
                res = list(f_tails)
            for n, target in fin["pending"]:
                for t, lab in f_tails:
                    if self.finals:
                        self.finals[-1]["pending"].append((t, target))
                    else:
                        g._edge(t, target, "fin")
            # exceptions raised in the try body with no handler also run finally then propagate:
            return res
        return out


_cache = {}


def cfg_of(fn_node) -> CFG:
    k = id(fn_node)
    g = _cache.get(k)
    if g is None or g.fn is not fn_node:
        g = CFG(fn_node)
        _cache[k] = g
    return g
