"""Small, exact source lints for classic slips that change behaviour only on unusual inputs or histories.

Each returns findings as (node, tag, message).  All are decided from the syntax tree (plus resolved decorators); each has
zero findings on the anchored files of the tree as it stands, so any finding is new.
  dup_operands        `a and a`, `x != "0" and x != "0"`, `f(x) == f(x)`: a copy-pasted operand that should name the other side
  strip_charset       `.lstrip(prefix)` / `.rstrip(suffix)` with a variable or a multi-character literal: strips a character
                      SET, not the prefix (files/fix.patch -> x.patch)
  mutable_default     a list / dict / set (display or constructor call) as parameter default that the function stores or mutates
  cached_mutable      a memoised function (lru_cache ...) whose return value is a freshly built mutable / stateful object:
                      every caller shares one instance and its state
  clone_siblings      two methods of one class (or functions of one module) with identical non-trivial bodies: one of
                      them was meant to differ (stable_forced_use reading forced_use)
  module_alias_write  at module level, `b = a` followed by an in-place update of `b`: `a` changes too"""
from __future__ import annotations

import ast

from . import astutil as A
from .effects import CACHE_DECORATORS, MUTATORS


def dup_operands(fn_node):
    out = []
    for n in ast.walk(fn_node):
        if isinstance(n, ast.BoolOp):
            seen = {}
            for v in n.values:
                k = ast.dump(v)
                if k in seen and not isinstance(v, ast.Constant):
                    out.append((v, "duplicate-operand", f"`{A.unparse(v)[:60]}` occurs twice in `{A.unparse(n)[:90]}`: the second occurrence tests nothing new (a copy-pasted operand that was meant to name the other side)"))
                seen[k] = v
        elif isinstance(n, ast.Compare) and len(n.ops) == 1 and not isinstance(n.left, ast.Constant):
            if ast.dump(n.left) == ast.dump(n.comparators[0]) and not any(isinstance(x, ast.Call) for x in ast.walk(n.left)):
                out.append((n, "self-comparison", f"`{A.unparse(n)[:80]}` compares an expression with itself"))
    return out


def strip_charset(fn_node):
    out = []
    for c in ast.walk(fn_node):
        if isinstance(c, ast.Call) and isinstance(c.func, ast.Attribute) and c.func.attr in ("lstrip", "rstrip") and len(c.args) == 1:
            a = c.args[0]
            lit = A.const(a)
            if isinstance(lit, (str, bytes)):
                if len(set(lit)) >= 3 and not all(ch in " \t\n\r\x0b\x0c" for ch in (lit if isinstance(lit, str) else lit.decode("latin1"))):
                    # a long literal of distinct characters is almost always meant as a prefix / suffix
                    if any(ch.isalnum() for ch in (lit if isinstance(lit, str) else lit.decode("latin1"))) and len(lit) >= 4:
                        out.append((c, "strip-charset", f"`{A.unparse(c)[:70]}` strips every leading/trailing character out of the SET {lit!r}, not the prefix/suffix {lit!r}"))
            elif isinstance(a, (ast.Name, ast.Attribute)):
                nm = A.unparse(a)
                last = nm.split(".")[-1].lower()
                import re as _re
                # only names that say "this is a path / prefix": a variable holding a separator or a character class is the
                # legitimate use of strip()
                if _re.search(r"(dir|base|prefix|suffix|root|location|offset|path)$|^(dir|base|prefix|root)", last) and not _re.search(r"(sep|chars?|slash|set)", last):
                    out.append((c, "strip-charset", f"`{A.unparse(c)[:70]}` treats the value of `{nm}` as a set of characters to strip, not as a prefix/suffix: names beginning with any of those characters lose them too"))
    return out


def mutable_default(fn_node):
    out = []
    if not isinstance(fn_node, (ast.FunctionDef, ast.AsyncFunctionDef)):
        return out
    a = fn_node.args
    params = a.posonlyargs + a.args
    defaults = [None] * (len(params) - len(a.defaults)) + list(a.defaults)
    pairs = list(zip(params, defaults)) + list(zip(a.kwonlyargs, a.kw_defaults))
    for p, d in pairs:
        if d is None:
            continue
        mutable = isinstance(d, (ast.List, ast.Dict, ast.Set)) or (
            isinstance(d, ast.Call) and isinstance(d.func, ast.Name) and d.func.id in ("list", "dict", "set", "defaultdict", "OrderedDict", "deque", "bytearray") )
        if not mutable:
            continue
        stored = mutated = False
        for n in ast.walk(fn_node):
            if isinstance(n, ast.Assign) and isinstance(n.value, ast.Name) and n.value.id == p.arg and any(isinstance(t, ast.Attribute) for t in n.targets):
                stored = True
            if isinstance(n, ast.Call) and isinstance(n.func, ast.Attribute) and n.func.attr in MUTATORS and isinstance(n.func.value, ast.Name) and n.func.value.id == p.arg:
                mutated = True
            if isinstance(n, ast.AugAssign) and isinstance(n.target, ast.Name) and n.target.id == p.arg:
                mutated = True
            if isinstance(n, ast.Subscript) and isinstance(n.ctx, (ast.Store, ast.Del)) and isinstance(n.value, ast.Name) and n.value.id == p.arg:
                mutated = True  # inodes[key] = x
            if isinstance(n, (ast.Return, ast.Yield)) and isinstance(n.value, ast.Name) and n.value.id == p.arg:
                stored = True
        if stored or mutated:
            out.append((d, f"mutable-default:{p.arg}", f"parameter `{p.arg}` defaults to one shared `{A.unparse(d)}` object and the function {'keeps a reference to it' if stored else 'modifies it in place'}: every call (every instance) that relies on the default shares the same object"))
    return out


_IMMUTABLE_CALLS = {"tuple", "frozenset", "str", "int", "float", "bool", "bytes", "len", "sum", "min", "max", "sorted_tuple", "hash", "repr", "any", "all"}


def cached_mutable(fn_node):
    out = []
    if not isinstance(fn_node, (ast.FunctionDef, ast.AsyncFunctionDef)):
        return out
    if not any(ast.unparse(d).split("(")[0].split(".")[-1] in ("lru_cache", "cache") for d in fn_node.decorator_list):
        return out
    defs = {}
    for t, v, st in A.assignments(fn_node):
        if isinstance(t, ast.Name):
            defs.setdefault(t.id, []).append(v)
    def immutable(e, depth=0):
        if isinstance(e, (ast.Constant, ast.Tuple, ast.JoinedStr, ast.Compare, ast.BoolOp)) and not (isinstance(e, ast.Tuple) and not all(immutable(x, depth + 1) or isinstance(x, (ast.Name, ast.Attribute, ast.Subscript, ast.Call)) for x in e.elts)):
            return True
        if isinstance(e, ast.Call):
            f = e.func
            nm = f.id if isinstance(f, ast.Name) else (f.attr if isinstance(f, ast.Attribute) else "")
            return nm in _IMMUTABLE_CALLS or nm in ("join", "format", "strip", "lower", "upper", "replace")
        if isinstance(e, ast.Name) and depth < 3 and e.id in defs:
            return all(immutable(v, depth + 1) for v in defs[e.id])
        if isinstance(e, ast.IfExp):
            return immutable(e.body, depth + 1) and immutable(e.orelse, depth + 1)
        return False
    for r in A.returns(fn_node):
        if r.value is not None and not immutable(r.value):
            kind = "a freshly built object" if isinstance(r.value, (ast.Call, ast.List, ast.Dict, ast.Set, ast.ListComp, ast.DictComp, ast.SetComp, ast.GeneratorExp, ast.Name)) else "a value"
            out.append((r, "memoised-mutable-result", f"the memoised function `{fn_node.name}` returns {kind} (`{A.unparse(r.value)[:60]}`) that is not evidently immutable: all callers with equal arguments share one instance, including whatever state it accumulates (iteration position, pruned domains, appended items)"))
    for n in ast.walk(fn_node):
        if isinstance(n, (ast.Yield, ast.YieldFrom)):
            out.append((n, "memoised-generator", f"the memoised function `{fn_node.name}` is a generator: the cache hands the same, already consumed, generator object to the second caller"))
            break
    return out


def _body_key(fn):
    body = [st for st in fn.body if not (isinstance(st, ast.Expr) and isinstance(st.value, ast.Constant))]
    if sum(1 for _ in ast.walk(ast.Module(body=body, type_ignores=[]))) < 12:
        return None
    return "\n".join(ast.dump(st) for st in body), tuple(a.arg for a in fn.args.args), tuple(ast.dump(d) for d in fn.decorator_list)


def clone_siblings(scope_node):
    """scope_node: ClassDef or Module; methods / functions with identical bodies and parameter lists"""
    out = []
    seen = {}
    for st in scope_node.body:
        if isinstance(st, (ast.FunctionDef, ast.AsyncFunctionDef)):
            if any(ast.unparse(d).endswith(".setter") or ast.unparse(d).endswith(".deleter") for d in st.decorator_list):
                continue
            k = _body_key(st)
            if k is None:
                continue
            if k in seen and seen[k].name != st.name:
                out.append((st, f"clone:{seen[k].name}={st.name}", f"`{st.name}` has exactly the body of `{seen[k].name}` (line {seen[k].lineno}): a copy whose distinguishing name / attribute was not changed"))
            else:
                seen[k] = st
    return out


def module_alias_write(mod_tree):
    out = []
    alias = {}
    for st in mod_tree.body:
        if isinstance(st, ast.Assign) and len(st.targets) == 1 and isinstance(st.targets[0], ast.Name):
            if isinstance(st.value, ast.Name):
                alias[st.targets[0].id] = st.value.id
            else:
                alias.pop(st.targets[0].id, None)
        elif isinstance(st, ast.Expr) and isinstance(st.value, ast.Call) and isinstance(st.value.func, ast.Attribute) and st.value.func.attr in MUTATORS \
                and isinstance(st.value.func.value, ast.Name) and st.value.func.value.id in alias:
            b = st.value.func.value.id
            out.append((st, f"module-alias-write:{b}", f"module level: `{b}` is another name for `{alias[b]}` (plain assignment, no copy) and is then modified in place (`{A.unparse(st)[:60]}`): `{alias[b]}` changes with it"))
        elif isinstance(st, ast.AugAssign) and isinstance(st.target, ast.Name) and st.target.id in alias and isinstance(st.op, (ast.BitOr, ast.Add)):
            b = st.target.id
            out.append((st, f"module-alias-write:{b}", f"module level: `{b}` aliases `{alias[b]}` and is extended in place"))
    return out


def broad_try_around_loop(fn_node):
    """``try: for x in xs: work(x)  except Exception: log`` — a catch-all that swallows sits around the whole loop instead of
    inside it: the first item that fails ends the loop and the remaining items are silently skipped."""
    out = []
    for t in ast.walk(fn_node):
        if not isinstance(t, ast.Try):
            continue
        body = [s for s in t.body if not (isinstance(s, ast.Expr) and isinstance(s.value, ast.Constant))]
        loops = [s_ for s_ in body if isinstance(s_, (ast.For, ast.While)) and any(isinstance(n, ast.Call) for b_ in s_.body for n in ast.walk(b_))]
        if not loops:
            continue
        body = [loops[0]]
        for h in t.handlers:
            names = []
            if h.type is None:
                names = ["<bare>"]
            else:
                for e in (h.type.elts if isinstance(h.type, ast.Tuple) else [h.type]):
                    names.append(A.unparse(e).split(".")[-1])
            broad = any(n in ("<bare>", "Exception", "BaseException") for n in names)
            # swallows unless every way through the handler ends in raise (a raise under an `if` leaves a swallowing path)
            def _always_raises(stmts):
                if not stmts:
                    return False
                last = stmts[-1]
                if isinstance(last, (ast.Raise, ast.Return)):
                    return True  # the failure is passed on, or the function gives up explicitly
                if isinstance(last, ast.If) and last.orelse:
                    return _always_raises(last.body) and _always_raises(last.orelse)
                return False
            swallows = not _always_raises(h.body)
            if broad and swallows and any(isinstance(n, ast.Call) for n in ast.walk(body[0])):
                out.append((t, "catch-all-around-loop", f"`except {', '.join(names)}` (which does not re-raise) encloses the whole `{A.unparse(body[0]).splitlines()[0][:60]}` loop: "
                            f"the first item that raises ends the loop, every later item is skipped without a trace"))
    return out


def open_without_trunc(fn_node):
    """``os.open(path, O_WRONLY | O_CREAT ...)`` without O_TRUNC / O_EXCL / O_APPEND, then written from the start: when the
    file already exists and is longer than what is written now, the old tail survives (a stale temp file of an interrupted
    run, a previous and longer environment dump)."""
    out = []
    for c in ast.walk(fn_node):
        if isinstance(c, ast.Call) and A.unparse(c.func) in ("os.open",) and len(c.args) >= 2:
            fexprs = [c.args[1]]
            if isinstance(c.args[1], ast.Name):
                fexprs = [v for t, v, _ in A.assignments(fn_node, c.args[1].id) if not isinstance(v, ast.AugAssign)] or fexprs
                fexprs += [v.value for t, v, _ in A.assignments(fn_node, c.args[1].id) if isinstance(v, ast.AugAssign)]
            flags = {n.attr if isinstance(n, ast.Attribute) else n.id for e in fexprs for n in ast.walk(e) if isinstance(n, (ast.Attribute, ast.Name))}
            if flags & {"O_WRONLY", "O_RDWR"} and "O_CREAT" in flags and not flags & {"O_TRUNC", "O_EXCL", "O_APPEND"}:
                out.append((c, "open-without-trunc", f"`{A.unparse(c)[:80]}` creates-or-opens a file for writing without O_TRUNC / O_EXCL: if it already exists with longer content "
                            f"(left by an interrupted or earlier run) the tail of the old content stays behind the new"))
    return out


def unused_result(fn_node):
    """A local that receives the result of a call (alone or by unpacking) and is never read afterwards, while a
    neighbouring, similarly used name is tested: the classic "renamed on the left, stale name still checked" slip
    (``idepend_failures = f(...)`` followed by ``if failures:``).  Only plain-name targets of call results; names starting
    with ``_`` and names also bound by loops / with / except are left alone."""
    out = []
    if not isinstance(fn_node, (ast.FunctionDef, ast.AsyncFunctionDef)):
        return out
    loads, stores = {}, {}
    nested_use = set()
    for n in ast.walk(fn_node):
        if isinstance(n, ast.Name):
            (loads if isinstance(n.ctx, ast.Load) else stores).setdefault(n.id, []).append(n)
        if isinstance(n, (ast.Global, ast.Nonlocal)):
            nested_use |= set(n.names)
    if any(isinstance(n, ast.Call) and isinstance(n.func, ast.Name) and n.func.id in ("locals", "vars", "eval", "exec") for n in ast.walk(fn_node)):
        return out
    for st in A.body_walk(fn_node):
        if not (isinstance(st, ast.Assign) and isinstance(st.value, ast.Call)):
            continue
        for t in st.targets:
            names = [t] if isinstance(t, ast.Name) else ([e for e in t.elts if isinstance(e, ast.Name)] if isinstance(t, (ast.Tuple, ast.List)) else [])
            for nm in names:
                if nm.id.startswith("_") or nm.id in loads or nm.id in nested_use:
                    continue
                if len(stores.get(nm.id, [])) != 1:
                    continue
                out.append((st, f"result-never-read:{nm.id}", f"`{nm.id}` receives `{A.unparse(st.value)[:60]}` and is never read: whatever is tested afterwards is an older value under another name"))
    return out


_SINGLE_PASS_CALLS = {"map", "filter", "zip", "chain", "iter", "reversed", "enumerate", "islice", "starmap", "zip_longest"}


def stored_iterator(fn_node):
    """``self.x = (… for …)`` / ``self.x = map(...)``: a single-pass iterator kept as object state is empty for every use
    after the first (a protection list that protects only during the first trigger run)."""
    out = []
    for st in A.body_walk(fn_node):
        if isinstance(st, ast.Assign) and any(isinstance(t, ast.Attribute) and isinstance(t.value, ast.Name) and t.value.id in ("self", "cls") for t in st.targets):
            v = st.value
            single = isinstance(v, ast.GeneratorExp) or (isinstance(v, ast.Call) and isinstance(v.func, ast.Name) and v.func.id in _SINGLE_PASS_CALLS - {"iter"})
            if single:
                tgt = next(A.unparse(t) for t in st.targets if isinstance(t, ast.Attribute))
                out.append((st, f"stored-iterator:{tgt}", f"`{tgt}` is assigned a single-pass iterator (`{A.unparse(v)[:60]}`): whatever consumes it first leaves it empty for every later use of the object"))
    return out


def seq_equal_by_zip(fn_node):
    """``all(map(eq, a, b))`` / ``all(x == y for x, y in zip(a, b))`` used as "a equals b": zip / map stop at the shorter
    input, so a proper prefix (or an empty sequence) compares equal."""
    out = []
    for c in ast.walk(fn_node):
        if not (isinstance(c, ast.Call) and isinstance(c.func, ast.Name) and c.func.id == "all" and len(c.args) == 1):
            continue
        a = c.args[0]
        hit = None
        if isinstance(a, ast.Call) and isinstance(a.func, ast.Name) and a.func.id == "map" and len(a.args) == 3 and A.unparse(a.args[0]).endswith(("eq", "__eq__")):
            hit = a
        elif isinstance(a, ast.GeneratorExp) and len(a.generators) == 1 and isinstance(a.generators[0].iter, ast.Call) and isinstance(a.generators[0].iter.func, ast.Name) \
                and a.generators[0].iter.func.id == "zip" and not any(k.arg == "strict" for k in a.generators[0].iter.keywords) \
                and isinstance(a.elt, ast.Compare) and isinstance(a.elt.ops[0], ast.Eq):
            hit = a
        if hit is not None:
            out.append((c, "prefix-equality", f"`{A.unparse(c)[:80]}` compares two sequences element by element up to the SHORTER one: a sequence that is a proper prefix of the other (or empty) counts as equal"))
    return out


import re as _re_mod

_QUANTITY = _re_mod.compile(r"^(mode|mtime|size|uid|gid|perms|expected_size|inode|dev)$")


def quantity_truthiness(fn_node):
    """``if obj.mode:`` / ``size and …`` / ``not mtime``: the truth value of a quantity for which 0 is a legitimate value
    (mode 0000, epoch mtime, zero-length file, uid 0) decides something; the intended test is ``is not None``.
    A local counts when it is named like the quantity or was assigned from such an attribute / mapping key; results of
    regex matches and of os.stat() are not optional quantities and are left alone."""
    out = []

    def qname(e):
        if isinstance(e, ast.Attribute):
            return e.attr if _QUANTITY.match(e.attr) else None
        if isinstance(e, ast.Subscript) and isinstance(e.slice, ast.Constant) and isinstance(e.slice.value, str):
            return e.slice.value if _QUANTITY.match(e.slice.value) else None
        if isinstance(e, ast.Call) and isinstance(e.func, ast.Attribute) and e.func.attr == "get" and e.args and isinstance(e.args[0], ast.Constant) \
                and isinstance(e.args[0].value, str):
            return e.args[0].value if _QUANTITY.match(e.args[0].value) else None
        if isinstance(e, ast.IfExp):
            return qname(e.body) or qname(e.orelse)
        return None

    alias, not_quantity = {}, set()
    for t, v, st in A.assignments(fn_node):
        if isinstance(t, ast.Name):
            q = qname(v)
            if q:
                alias[t.id] = q
            elif isinstance(v, ast.Call) and A.unparse(v.func).split(".")[-1] in ("match", "search", "fullmatch", "compile", "stat", "lstat"):
                not_quantity.add(t.id)
    for node, test, e in _truth_uses(fn_node):
        q = None
        if isinstance(e, ast.Name):
            if e.id in not_quantity:
                continue
            q = alias.get(e.id) or (e.id if _QUANTITY.match(e.id) else None)
        elif isinstance(e, ast.Attribute) and not (isinstance(e.value, ast.Call)):
            q = qname(e)
        if q:
            out.append((node, f"quantity-truthiness:{q}", f"the truth value of `{A.unparse(e)}` decides in `{A.unparse(test)[:60]}`: 0 is a legitimate {q} "
                        f"(mode 0000, the epoch, an empty file, root) and is treated like 'not given'"))
    return out


_FS_MUST_SUCCEED = {"os.chown", "os.lchown", "os.chmod", "os.lchmod", "os.utime", "os.rename", "os.replace", "os.link", "os.symlink", "os.fsync", "os.truncate",
                    "os.mkfifo", "os.mknod", "shutil.move", "shutil.copyfile", "shutil.copy2"}
_BROAD_OS = {"OSError", "IOError", "EnvironmentError", "Exception", "BaseException", "<bare>", "PermissionError"}


def _handler_names(h):
    if h.type is None:
        return ["<bare>"]
    return [A.unparse(e).split(".")[-1] for e in (h.type.elts if isinstance(h.type, ast.Tuple) else [h.type])]


def _can_fall_through(stmts):
    """does some way through the handler body end without raise / return?"""
    if not stmts:
        return True
    last = stmts[-1]
    if isinstance(last, (ast.Raise, ast.Return, ast.Continue, ast.Break)):
        return False
    if isinstance(last, ast.If):
        return _can_fall_through(last.body) or _can_fall_through(last.orelse)
    return True


def swallowed_fs_failure(fn_node):
    """``try: os.lchown(...) except OSError: pass`` — the failure of an ownership / mode / rename step is dropped without a
    condition on the error (no errno test, no re-raise, no return value): what follows treats the step as done."""
    out = []
    for t in ast.walk(fn_node):
        if not isinstance(t, ast.Try):
            continue
        calls = [c for s in t.body for c in ast.walk(s) if isinstance(c, ast.Call) and A.unparse(c.func) in _FS_MUST_SUCCEED]
        if not calls:
            continue
        for h in t.handlers:
            names = _handler_names(h)
            if not set(names) & _BROAD_OS:
                continue
            unconditional = all(isinstance(s, ast.Pass) or (isinstance(s, ast.Expr) and isinstance(s.value, ast.Constant)) for s in h.body)
            if unconditional:
                out.append((h, f"fs-failure-swallowed:{A.unparse(calls[0].func)}", f"`except {', '.join(names)}: pass` drops any failure of `{A.unparse(calls[0])[:60]}`: "
                            f"the steps after it (and the caller) go on as if ownership / mode / placement had been set"))
    return out


def errno_tolerance_around_loop(fn_node):
    """``try: for x in xs: syscall(x)  except OSError as e: if e.errno not in (...): raise`` — an errno tolerance is meant
    per operation; around the whole loop the first tolerated failure ends the loop and every later item is skipped."""
    out = []
    for t in ast.walk(fn_node):
        if not isinstance(t, ast.Try):
            continue
        loops = [s for s in t.body if isinstance(s, (ast.For, ast.While)) and any(isinstance(n, ast.Call) for b in s.body for n in ast.walk(b))]
        if not loops or len(t.body) != 1:
            continue  # with other statements in the try the tolerated error may come from those (opening the source of the loop)
        for h in t.handlers:
            if h.name is None or not _can_fall_through(h.body):
                continue
            tests_errno = any(isinstance(n, ast.Attribute) and n.attr == "errno" and isinstance(n.value, ast.Name) and n.value.id == h.name for s in h.body for n in ast.walk(s))
            if tests_errno:
                out.append((t, "errno-tolerance-around-loop", f"the errno tolerance of `except {', '.join(_handler_names(h))}` encloses the whole "
                            f"`{A.unparse(loops[0]).splitlines()[0][:60]}` loop: the first tolerated failure ends the loop and the remaining items are never processed"))
    return out


def _has_yield(fn_node):
    for n in A.body_walk(fn_node):
        if isinstance(n, (ast.Yield, ast.YieldFrom)):
            return True
    return False


def discarded_generator_call(prog, fi):
    """``work(items)`` as a statement where ``work`` is a generator function: the call only builds the generator object,
    none of the body runs (a function turned into a generator by a late ``yield from`` silently stops doing its work for
    callers that relied on the call itself)."""
    out = []
    for st in A.body_walk(fi.node):
        if not (isinstance(st, ast.Expr) and isinstance(st.value, ast.Call)):
            continue
        c = st.value
        target = None
        dn = A.unparse(c.func) if isinstance(c.func, (ast.Name, ast.Attribute)) else ""
        if dn and all(p.isidentifier() for p in dn.split(".")) and dn.split(".")[0] not in ("self", "cls"):
            r = prog.resolve_name(fi.module, dn)
            target = r if hasattr(r, "node") and isinstance(getattr(r, "node", None), (ast.FunctionDef, ast.AsyncFunctionDef)) else None
        elif isinstance(c.func, ast.Attribute) and isinstance(c.func.value, ast.Name) and fi.cls is not None and fi.params() and c.func.value.id == fi.params()[0]:
            target = prog.lookup_attr(fi.cls, c.func.attr)[1]
            if not (hasattr(target, "node") and isinstance(getattr(target, "node", None), ast.FunctionDef)):
                target = None
        if target is not None and _has_yield(target.node) and not any("contextmanager" in ast.unparse(d) or "coroutine" in ast.unparse(d) for d in target.node.decorator_list):
            out.append((st, f"generator-call-discarded:{target.node.name}", f"`{A.unparse(c)[:60]}` is a bare statement, but `{target.node.name}` is a generator function: "
                        f"calling it runs none of its body until the result is iterated, which nobody does here"))
    return out


def copy_drops_field(prog, cls_info):
    """a method of a dataclass builds a new instance of its own class from its own fields (``Cls(self.a, self.b, x)``) and
    leaves out a field that has a default: the copy silently resets that field (``dataclasses.replace`` keeps all)."""
    out = []
    node = cls_info.node
    if not any("dataclass" in ast.unparse(d) for d in node.decorator_list):
        return out
    fields = []
    for st in node.body:
        if isinstance(st, ast.AnnAssign) and isinstance(st.target, ast.Name) and "ClassVar" not in ast.unparse(st.annotation):
            fields.append((st.target.id, st.value is not None))
    names = [f for f, _ in fields]
    for mname, m in cls_info.methods.items():
        ps = m.params()
        if not ps or mname in ("__init__", "__post_init__", "__new__"):
            continue
        me = ps[0]
        for c in A.calls(m.node):
            fn = ast.unparse(c.func)
            if fn not in (cls_info.name, f"type({me})", f"{me}.__class__", "cls"):
                continue
            if any(isinstance(a, ast.Starred) for a in c.args) or any(k.arg is None for k in c.keywords):
                continue
            bound = dict(zip(names, c.args))
            bound.update({k.arg: k.value for k in c.keywords})
            carried = [f for f, v in bound.items() if A.self_attr(v, me) == f]  # passed through unchanged
            if len(carried) < 2 or len(bound) - len(carried) > 1:
                continue  # not "this instance with one field replaced"
            for f, has_default in fields:
                if has_default and f not in bound:
                    out.append((c, f"copy-drops-field:{f}", f"{cls_info.name}.{mname} rebuilds the instance as `{A.unparse(c)[:70]}` from its own fields but does not pass `{f}`: "
                                f"the copy gets the default of `{f}` whatever this instance holds"))
    return out


def _truth_uses(fn_node):
    """expressions whose truth value decides something: operands of if / while / conditional expression / comprehension
    filters, through ``not`` / ``and`` / ``or``"""
    for node in ast.walk(fn_node):
        tests = []
        if isinstance(node, (ast.If, ast.IfExp, ast.While)):
            tests = [node.test]
        elif isinstance(node, ast.comprehension):
            tests = node.ifs
        elif isinstance(node, ast.Assert):
            tests = [node.test]
        for t in tests:
            st = [t]
            while st:
                e = st.pop()
                if isinstance(e, ast.BoolOp):
                    st.extend(e.values)
                elif isinstance(e, ast.UnaryOp) and isinstance(e.op, ast.Not):
                    st.append(e.operand)
                else:
                    yield node, t, e


def optional_falsy_truthiness(prog, cls_info):
    """a field declared ``T | None`` where an instance of T can itself be false (T defines ``__bool__`` / ``__len__``, or is
    int / float) is tested by truth value: "present but empty / zero" is then handled like "not given"."""
    out = []
    falsy = {}
    for st in cls_info.node.body:
        if not (isinstance(st, ast.AnnAssign) and isinstance(st.target, ast.Name)):
            continue
        ann = st.annotation
        parts = []
        if isinstance(ann, ast.BinOp) and isinstance(ann.op, ast.BitOr):
            stack = [ann]
            while stack:
                x = stack.pop()
                if isinstance(x, ast.BinOp) and isinstance(x.op, ast.BitOr):
                    stack += [x.left, x.right]
                else:
                    parts.append(x)
        elif isinstance(ann, ast.Subscript) and A.unparse(ann.value).endswith("Optional"):
            parts = [ann.slice, ast.Constant(None)]
        if not any(isinstance(p, ast.Constant) and p.value is None for p in parts):
            continue
        for p in parts:
            if isinstance(p, ast.Constant):
                continue
            tn = A.unparse(p.value if isinstance(p, ast.Subscript) else p)
            if tn in ("int", "float"):
                falsy[st.target.id] = f"{tn} (0 is a value)"
            else:
                r = prog.resolve_name(cls_info.module, tn.split(".")[0]) if "." not in tn else None
                if hasattr(r, "methods") and ("__bool__" in r.methods or "__len__" in r.methods):
                    falsy[st.target.id] = f"{tn} (defines {'__bool__' if '__bool__' in r.methods else '__len__'})"
    if not falsy:
        return out
    for mname, m in cls_info.methods.items():
        ps = m.params()
        if not ps:
            continue
        for node, test, e in _truth_uses(m.node):
            a = A.self_attr(e, ps[0])
            if a in falsy:
                out.append((node, f"optional-falsy-truth:{a}", f"{cls_info.name}.{mname} tests the truth value of `{A.unparse(e)}`, declared `… | None` with {falsy[a]}: "
                            f"a value that is present but false is treated as absent (compare with `is not None`)"))
    return out


def stale_precomputed_hash(fn_node):
    """``self._hash = hash((self.a, self.b))`` followed, on some path, by a store to ``self.a``: the stored hash still
    describes the old value while equality (which reads the attributes) sees the new one — equal objects, different hashes."""
    from .cfg import cfg_of
    out = []
    if not isinstance(fn_node, (ast.FunctionDef, ast.AsyncFunctionDef)) or not fn_node.args.args:
        return out
    me = fn_node.args.args[0].arg

    def hash_store(st):
        """(attr name, value expr) when the statement stores a hash-like attribute of self"""
        if isinstance(st, ast.Assign) and len(st.targets) == 1:
            a = A.self_attr(st.targets[0], me)
            if a and "hash" in a.lower():
                return a, st.value
        if isinstance(st, ast.Expr) and isinstance(st.value, ast.Call):
            c = st.value
            fn = A.unparse(c.func)
            if fn in ("sf", "object.__setattr__", "setattr") and len(c.args) == 3 and isinstance(c.args[0], ast.Name) and c.args[0].id == me \
                    and isinstance(c.args[1], ast.Constant) and isinstance(c.args[1].value, str) and "hash" in c.args[1].value.lower():
                return c.args[1].value, c.args[2]
        return None

    def attr_stores(st):
        res = set()
        if isinstance(st, (ast.Assign, ast.AugAssign, ast.AnnAssign)):
            tg = st.targets if isinstance(st, ast.Assign) else [st.target]
            for t in tg:
                for x in (t.elts if isinstance(t, (ast.Tuple, ast.List)) else [t]):
                    a = A.self_attr(x, me)
                    if a:
                        res.add(a)
        if isinstance(st, ast.Expr) and isinstance(st.value, ast.Call):
            c = st.value
            if A.unparse(c.func) in ("sf", "object.__setattr__", "setattr") and len(c.args) == 3 and isinstance(c.args[0], ast.Name) and c.args[0].id == me \
                    and isinstance(c.args[1], ast.Constant) and isinstance(c.args[1].value, str):
                res.add(c.args[1].value)
        return res

    hs = [(st,) + hash_store(st) for st in A.body_walk(fn_node) if hash_store(st)]
    if not hs:
        return out
    g = cfg_of(fn_node)
    for st, hattr, val in hs:
        reads = {A.self_attr(n, me) for n in ast.walk(val) if isinstance(n, ast.Attribute)} - {None, hattr}
        if not reads:
            continue
        hn = g.node_of(st)
        if hn is None:
            continue
        after = g.reach([hn])
        for n in after:
            if n.ast is None or n is hn:
                continue
            bad = attr_stores(n.ast) & reads
            for a in sorted(bad):
                out.append((n.ast, f"hash-stale:{a}", f"`self.{a}` is assigned (line {getattr(n.ast, 'lineno', '?')}) after `self.{hattr}` was computed from it (line {st.lineno}): "
                            f"the stored hash keeps describing the old value while comparisons read the new one"))
    return out


_MATERIALISERS = {"tuple", "frozenset", "list", "set", "dict", "sorted", "str", "bytes", "int", "bool", "len", "ImmutableDict", "OrderedDict"}


def cached_injected_result(cls_info):
    """``self._cache[key] = self._pull(key)`` where ``_pull`` is a callable handed to ``__init__``: whatever the caller's
    function returns — possibly a generator or another single-pass iterable — is remembered as is, so the first reader
    consumes it and every later lookup gets an exhausted object.  The remembered value must be materialised first."""
    out = []
    init = cls_info.methods.get("__init__")
    if init is None or not init.params():
        return out
    me = init.params()[0]
    params = set(init.params()[1:])
    injected = {A.self_attr(t, me) for t, v, st in A.assignments(init.node) if isinstance(v, ast.Name) and v.id in params and A.self_attr(t, me)}
    injected.discard(None)
    if not injected:
        return out
    for mname, m in cls_info.methods.items():
        ps = m.params()
        if not ps or mname == "__init__":
            continue
        s = ps[0]

        def raw_call(v, depth=0):
            if isinstance(v, ast.Call) and isinstance(v.func, ast.Attribute) and A.self_attr(v.func, s) in injected:
                return v
            if isinstance(v, ast.Name) and depth < 2:
                ds = [vv for t, vv, st in A.assignments(m.node, v.id)]
                hits = [raw_call(d, depth + 1) for d in ds]
                return hits[0] if ds and all(hits) else None
            return None
        for st in A.body_walk(m.node):
            if not isinstance(st, ast.Assign):
                continue
            stores = [t for t in st.targets if (isinstance(t, ast.Subscript) and A.self_attr(t.value, s)) or A.self_attr(t, s)]
            if not stores:
                continue
            c = raw_call(st.value)
            if c is not None:
                out.append((st, f"cached-unmaterialised:{A.unparse(c.func)}", f"{cls_info.name}.{mname} remembers the result of the injected callable `{A.unparse(c.func)}` in "
                            f"`{A.unparse(stores[0])}` as it comes: if the callable returns a generator or other single-pass iterable, the first reader drains it and every "
                            f"later lookup is served an empty object (materialise with tuple()/frozenset() before storing)"))
    return out


def lazy_parse_not_invalidated(prog, cls_info):
    """A class loads a file lazily behind a flag (``if self._loaded: return … self._loaded = True`` in a method that reads
    ``self.<path>``) and another of its methods rewrites that same file: after the write the flag must be cleared on every
    normal way out, or the object keeps answering from the parse of the old file."""
    from . import fsfx
    from .cfg import cfg_of
    out = []
    loaders = []  # (method, flag attr, path attrs read)
    for mname, m in cls_info.methods.items():
        ps = m.params()
        if not ps:
            continue
        me = ps[0]
        body = m.node.body
        first = next((s for s in body if not (isinstance(s, ast.Expr) and isinstance(s.value, ast.Constant))), None)
        if not (isinstance(first, ast.If) and A.self_attr(first.test, me) and len(first.body) == 1 and isinstance(first.body[0], ast.Return)):
            continue
        flag = A.self_attr(first.test, me)
        sets_true = any(isinstance(s, ast.Assign) and any(A.self_attr(t, me) == flag for t in s.targets) and isinstance(s.value, ast.Constant) and s.value.value is True
                        for s in A.body_walk(m.node))
        if not sets_true:
            continue
        paths = {A.self_attr(a, me) for c in A.calls(m.node) for a in c.args if A.self_attr(a, me)}
        paths.discard(flag)
        if paths:
            loaders.append((m, flag, paths))
    if not loaders:
        return out
    eng = fsfx.engine(prog)
    for lm, flag, paths in loaders:
        for mname, m in cls_info.methods.items():
            if m is lm or not m.params() or mname == "__init__":
                continue
            me = m.params()[0]
            writes = [s for s in eng.direct(m) if s.op in ("write", "rename") and any(("self:" + p) in s.srcs for p in paths)]
            if not writes:
                continue
            g = cfg_of(m.node)
            resets = [g.node_of(s) for s in A.body_walk(m.node) if isinstance(s, ast.Assign) and any(A.self_attr(t, me) == flag for t in s.targets)
                      and isinstance(s.value, ast.Constant) and s.value.value in (False, None)]
            resets = [r for r in resets if r is not None]
            for w in writes:
                wn = g.node_of(w.node)
                if wn is None:
                    continue
                path = g.find_path([wn], lambda n: n is g.exit, avoid=lambda n: n in resets, edge_ok=lambda a, b, lab: lab != "exc")
                if path is not None:
                    out.append((w.node, f"lazy-parse-stale:{flag}", f"{cls_info.name}.{mname} rewrites `{w.path}` (line {w.node.lineno}) and can return without clearing `self.{flag}`, the flag "
                                f"{cls_info.name}.{lm.name} consults before parsing that file: an object that was already consulted keeps serving the contents of the old file"))
    return out


def closes_borrowed_handle(cls_info):
    """a provider (property / method) that returns either a handle it opens itself or one the object was *given*
    (``return open(self._source)`` / ``return self._source``) has mixed ownership: closing its result unconditionally —
    ``with self._fd as fd:`` or ``fd.close()`` outside any test — also closes the caller's own file object."""
    out = []
    mixed = {}
    for mname, m in cls_info.methods.items():
        ps = m.params()
        if not ps:
            continue
        rets = [r.value for r in A.returns(m.node) if r.value is not None]
        opens = [r for r in rets if isinstance(r, ast.Call) and A.unparse(r.func).split(".")[-1] in ("open", "fdopen")]
        borrowed = [r for r in rets if A.self_attr(r, ps[0])]
        if opens and borrowed:
            mixed[mname] = A.unparse(borrowed[0])
    if not mixed:
        return out
    for mname, m in cls_info.methods.items():
        ps = m.params()
        if not ps or mname in mixed:
            continue
        me = ps[0]

        def from_provider(e):
            if isinstance(e, ast.Call):
                e = e.func
            a = A.self_attr(e, me)
            return a if a in mixed else None
        held = {t.id: from_provider(v) for t, v, st in A.assignments(m.node) if isinstance(t, ast.Name) and from_provider(v)}
        for n in A.body_walk(m.node):
            if isinstance(n, (ast.With, ast.AsyncWith)):
                for it in n.items:
                    p = from_provider(it.context_expr) or (held.get(it.context_expr.id) if isinstance(it.context_expr, ast.Name) else None)
                    if p:
                        out.append((n, f"closes-borrowed:{p}", f"{cls_info.name}.{mname} uses `{A.unparse(it.context_expr)}` as a context manager; `{p}` returns `{mixed[p]}` itself "
                                    f"when the object was built around an open file, so leaving the block closes the caller's file object"))
            elif isinstance(n, ast.Expr) and isinstance(n.value, ast.Call) and isinstance(n.value.func, ast.Attribute) and n.value.func.attr == "close" \
                    and isinstance(n.value.func.value, ast.Name) and n.value.func.value.id in held and not any(isinstance(p_, ast.If) for p_ in A.parents(n)):
                p = held[n.value.func.value.id]
                out.append((n, f"closes-borrowed:{p}", f"{cls_info.name}.{mname} closes `{n.value.func.value.id}` unconditionally; it comes from `{p}`, which returns `{mixed[p]}` itself "
                            f"when the object was built around an open file"))
    return out


def crossed_family_update(fn_node):
    """``pkg_restrict.add(f(cat_exact))`` in a function that keeps two parallel families of locals
    (``cat_exact`` / ``pkg_exact``, ``cat_restrict`` / ``pkg_restrict``): a container of one family is fed only from the
    other family's variable although its own family has the matching one — the signature of a copy/paste slip."""
    import collections
    names = {n.id for n in ast.walk(fn_node) if isinstance(n, ast.Name)}
    split = {}
    for n in names:
        p, _, s = n.partition("_")
        if p and s:
            split[n] = (p, s)
    bysuf = collections.defaultdict(set)
    for n, (p, s) in split.items():
        bysuf[s].add(p)
    out = []
    for st in A.body_walk(fn_node):
        if not (isinstance(st, ast.Expr) and isinstance(st.value, ast.Call) and isinstance(st.value.func, ast.Attribute) and isinstance(st.value.func.value, ast.Name)):
            continue
        if st.value.func.attr not in ("add", "append", "update", "extend", "insert", "setdefault", "discard", "remove"):
            continue
        tgt = st.value.func.value.id
        if tgt not in split:
            continue
        p1, s1 = split[tgt]
        used = [n.id for a in list(st.value.args) + [k.value for k in st.value.keywords] for n in ast.walk(a) if isinstance(n, ast.Name) and n.id in split and n.id != tgt]
        if not used or any(split[u][0] == p1 for u in used):
            continue
        for u in used:
            p2, s2 = split[u]
            if p2 != p1 and s2 != s1 and p2 in bysuf[s1] and f"{p1}_{s2}" in names and f"{p2}_{s1}" in names:
                out.append((st, f"crossed-family:{tgt}<-{u}", f"`{A.unparse(st)[:70]}` feeds `{tgt}` from `{u}` although `{p1}_{s2}` exists: the function keeps parallel "
                            f"`{p1}_*` / `{p2}_*` variables and this statement crosses them"))
                break
    return out


def guard_add_mismatch(fn_node):
    """``if x not in seen: seen.add(y)`` — the membership test and the insertion it guards name different things, and
    nothing inserts what was tested: the guard never becomes false for ``x`` (a negated token recorded under its raw
    spelling while lookups use the bare name)."""
    out = []
    for i in ast.walk(fn_node):
        if not (isinstance(i, ast.If) and isinstance(i.test, ast.Compare) and len(i.test.ops) == 1 and isinstance(i.test.ops[0], ast.NotIn)):
            continue
        tested, cont = A.unparse(i.test.left), A.unparse(i.test.comparators[0])
        adds = [c for s in i.body for c in ast.walk(s) if isinstance(c, ast.Call) and isinstance(c.func, ast.Attribute) and c.func.attr in ("add", "append")
                and A.unparse(c.func.value) == cont and len(c.args) == 1]
        stores = [s for st in i.body for s in ast.walk(st) if isinstance(s, ast.Subscript) and isinstance(s.ctx, ast.Store) and A.unparse(s.value) == cont]
        if not adds or stores:
            continue
        if any(A.unparse(c.args[0]) == tested for c in adds):
            continue
        # the inserted value must at least be computed from the tested one to count as "the same thing"
        tested_names = {n.id for n in ast.walk(i.test.left) if isinstance(n, ast.Name)}
        for c in adds:
            arg_names = {n.id for n in ast.walk(c.args[0]) if isinstance(n, ast.Name)}
            if tested_names and not (tested_names & arg_names) and isinstance(c.args[0], ast.Name) and isinstance(i.test.left, ast.Name):
                out.append((c, f"guard-add-mismatch:{cont}", f"`if {tested} not in {cont}` guards `{A.unparse(c)}`: what is inserted is not what was tested, and `{tested}` itself is never "
                            f"inserted, so the test stays true for it"))
    return out


def implicit_concat_in_collection(tree, src):
    """``("/etc", "/opt" "/home", "/var")`` — a missing comma in a tuple / list / set of string literals silently glues two
    elements into one (``"/opt/home"``) and both intended elements drop out of the collection."""
    import io
    import tokenize
    out = []
    for n in ast.walk(tree):
        if not (isinstance(n, (ast.Tuple, ast.List, ast.Set)) and len(n.elts) >= 2 and all(isinstance(e, ast.Constant) and isinstance(e.value, str) for e in n.elts)):
            continue
        for e in n.elts:
            seg = ast.get_source_segment(src, e)
            if not seg:
                continue
            try:
                toks = [t for t in tokenize.generate_tokens(io.StringIO(seg).readline) if t.type == tokenize.STRING]
            except Exception:
                continue
            if len(toks) > 1 and all(len(ast.literal_eval(t.string)) < 40 for t in toks):
                out.append((e, f"implicit-concatenation:{e.value[:30]}", f"the element `{seg[:50]}` of a collection of string literals is two literals glued together by a missing comma: "
                            f"the collection holds {e.value!r} instead of the two intended entries"))
    return out


_RE_CALLS = {"compile", "match", "search", "fullmatch", "sub", "split", "findall", "finditer", "regexp", "demand_compile_regexp"}


def regex_punctuation_range(tree):
    """``[A-Za-z0-9_+-.]`` — inside a character class a ``-`` between two punctuation characters forms a *range*
    (``+-.`` is ``+ , - .``), silently admitting characters that were never listed."""
    from . import rx
    import re as _re
    try:
        import re._parser as sp
        import re._constants as sc
    except ImportError:  # pragma: no cover
        import sre_parse as sp
        import sre_constants as sc
    out = []

    def ranges(t, acc):
        for op, av in t:
            if op == sc.IN:
                acc.extend(a2 for o2, a2 in av if o2 == sc.RANGE)
            elif op == sc.SUBPATTERN:
                ranges(av[3], acc)
            elif op == sc.BRANCH:
                for alt in av[1]:
                    ranges(alt, acc)
            elif op in (sc.MAX_REPEAT, sc.MIN_REPEAT):
                ranges(av[2], acc)
            elif op in (sc.ASSERT, sc.ASSERT_NOT):
                ranges(av[1], acc)
    for c in ast.walk(tree):
        if not (isinstance(c, ast.Call) and (A.unparse(c.func).split(".")[-1] in _RE_CALLS) and c.args):
            continue
        for a in c.args[:1]:
            pieces = [x.value for x in ast.walk(a) if isinstance(x, ast.Constant) and isinstance(x.value, str)]
            for pat in pieces:
                if "[" not in pat or "-" not in pat:
                    continue
                try:
                    t = sp.parse(pat)
                except Exception:
                    continue
                acc = []
                ranges(t, acc)
                for lo, hi in acc:
                    if not (chr(lo).isalnum() and chr(hi).isalnum()):
                        extra = "".join(chr(x) for x in range(lo + 1, hi) if True)
                        out.append((c, f"regex-punctuation-range:{chr(lo)}-{chr(hi)}", f"the character class in {pat[:50]!r} contains the range `{chr(lo)}-{chr(hi)}` "
                                    f"(a `-` that is not first or last in the class): besides the two endpoints it admits {extra!r}"))
    return out


def splitext_never_equal(fn_node):
    """``os.path.splitext(x)[1] in (".bak", "~")`` — the extension splitext returns is empty or starts with a dot, so a
    comparison with a string that does not start with ``.`` (``"~"``, ``"bak"``) can never hold: that case is silently lost."""
    out = []

    def is_ext(e):
        return isinstance(e, ast.Subscript) and isinstance(e.value, ast.Call) and A.unparse(e.value.func).endswith("splitext") and A.const(e.slice) in (1, -1)
    ext_names = {t.id for t, v, st in A.assignments(fn_node) if isinstance(t, ast.Name) and is_ext(v)}
    for t, v, st in A.assignments(fn_node):
        # root, ext = os.path.splitext(x)
        if isinstance(t, ast.Tuple) and len(t.elts) == 2 and isinstance(v, ast.Call) and A.unparse(v.func).endswith("splitext") and isinstance(t.elts[1], ast.Name):
            ext_names.add(t.elts[1].id)
    for c in ast.walk(fn_node):
        if not (isinstance(c, ast.Compare) and len(c.ops) == 1 and isinstance(c.ops[0], (ast.Eq, ast.NotEq, ast.In, ast.NotIn))):
            continue
        sides = [c.left, c.comparators[0]]
        if not any(is_ext(s) or (isinstance(s, ast.Name) and s.id in ext_names) for s in sides):
            continue
        lits = []
        for s in sides:
            if isinstance(s, ast.Constant) and isinstance(s.value, str):
                lits.append(s.value)
            elif isinstance(s, (ast.Tuple, ast.List, ast.Set)):
                lits += [e.value for e in s.elts if isinstance(e, ast.Constant) and isinstance(e.value, str)]
        bad = [x for x in lits if x and not x.startswith(".")]
        for x in bad:
            out.append((c, f"splitext-never-equal:{x}", f"`{A.unparse(c)[:70]}` compares the extension returned by splitext() with {x!r}: that extension is empty or starts "
                        f"with '.', so this alternative can never match (a trailing {x!r} is not an extension)"))
    return out


def publish_failure_as_status(fn_node):
    """``try: os.rename(tmp, final) except OSError: log(...); return False`` — a failing publish step is turned into a return
    value / a log line without looking at the error and without re-raising: callers written for "raises on failure" (and any
    caller that ignores the value) go on as if the new state were in place."""
    out = []
    for t in ast.walk(fn_node):
        if not isinstance(t, ast.Try):
            continue
        ren = [c for s in t.body for c in ast.walk(s) if isinstance(c, ast.Call) and A.unparse(c.func) in ("os.rename", "os.replace")]
        if not ren:
            continue
        for h in t.handlers:
            names = _handler_names(h)
            if not set(names) & _BROAD_OS:
                continue
            raises = any(isinstance(n, ast.Raise) for s in h.body for n in ast.walk(s))
            # "looks at the error" = the exception object takes part in a test (errno filter, isinstance); showing it in a message does not count
            inspects = h.name is not None and any(isinstance(n, ast.Name) and n.id == h.name for st_ in h.body for i_ in ast.walk(st_)
                                                  if isinstance(i_, (ast.If, ast.IfExp, ast.While)) for n in ast.walk(i_.test))
            if not raises and not inspects and not all(isinstance(s, ast.Pass) for s in h.body):
                out.append((h, f"publish-failure-as-status:{A.unparse(ren[0].func)}", f"`except {', '.join(names)}` around `{A.unparse(ren[0])[:50]}` neither re-raises nor looks at the error: "
                            f"a failed rename (the step that puts the new state in place) is reduced to a log line / return value, and what follows treats the new state as present"))
    return out


_QUANTITY_OR = _re_mod.compile(r"^(mode|mtime|size|uid|gid|perms|expected_size|inode|dev|revision|rev|offset)$")


def quantity_or_default(fn_node):
    """``fsobj.mtime or time.time()`` / ``self.revision or None`` as a value: `or` replaces every *false* left operand, so a
    legitimate zero (epoch mtime, mode 0000, uid 0, an explicit revision ``-r0``) is silently swapped for the fallback — the
    fallback was meant for "not given" (``None``) only."""
    out = []
    for n in ast.walk(fn_node):
        if not (isinstance(n, ast.BoolOp) and isinstance(n.op, ast.Or) and len(n.values) >= 2):
            continue
        par = getattr(n, "_parent", None)
        if isinstance(par, (ast.If, ast.While, ast.BoolOp, ast.UnaryOp, ast.Assert)) or (isinstance(par, ast.IfExp) and par.test is n) or isinstance(par, ast.comprehension):
            continue  # a truth test, not a value
        l = n.values[0]
        nm = l.attr if isinstance(l, ast.Attribute) else (l.id if isinstance(l, ast.Name) else None)
        if nm and _QUANTITY_OR.match(nm):
            out.append((n, f"quantity-or-default:{nm}", f"`{A.unparse(n)[:60]}` substitutes the fallback whenever `{A.unparse(l)}` is false: a legitimate zero value of {nm} "
                        f"(the epoch, mode 0000, uid 0, revision 0) is replaced as if nothing had been given"))
    return out


def guard_attr_deviates(fn_node):
    """A run of sibling blocks ``if obj.a is not None: out[...] = f(obj.a)`` where one block tests ``obj.a`` but uses only
    ``obj.b``: the copy/paste deviation among otherwise uniform siblings (the block is emitted or skipped on the wrong
    field's presence).  Armed only when at least three siblings in the function follow the pattern consistently."""
    out = []
    good, bad = 0, []
    for i in ast.walk(fn_node):
        if not (isinstance(i, ast.If) and not i.orelse):
            continue
        t = i.test
        if isinstance(t, ast.Compare) and len(t.ops) == 1 and isinstance(t.ops[0], (ast.IsNot, ast.NotEq)) and isinstance(t.comparators[0], ast.Constant) and t.comparators[0].value is None:
            g = t.left
        else:
            continue  # only explicit presence tests: a boolean flag legitimately guards other fields
        if not (isinstance(g, ast.Attribute) and isinstance(g.value, ast.Name)):
            continue
        obj, attr = g.value.id, g.attr
        used = {n.attr for s in i.body for n in ast.walk(s) if isinstance(n, ast.Attribute) and isinstance(n.value, ast.Name) and n.value.id == obj}
        if not used:
            continue
        if attr in used:
            good += 1
        elif len(i.body) == 1:
            bad.append((i, obj, attr, sorted(used)))
    if good >= 3:
        for i, obj, attr, used in bad:
            out.append((i, f"guard-attr-deviates:{attr}", f"`if {A.unparse(i.test)}` guards a block that only uses `{obj}.{used[0]}`; {good} sibling blocks in this function test the very "
                        f"attribute they use — this one is decided by another field's presence"))
    return out


def unbalanced_peer_args(fn_node):
    """In a binary method ``(self, other)``: a call or comparison that takes attributes of both operands but not the *same*
    attributes from each side — ``ver_cmp(self.version, self.revision, other.version, self.revision)`` — one side's field was
    pasted where the peer's belongs."""
    import collections
    out = []
    if not isinstance(fn_node, (ast.FunctionDef, ast.AsyncFunctionDef)):
        return out
    ps = [a.arg for a in fn_node.args.posonlyargs + fn_node.args.args]
    if len(ps) != 2 or ps[0] != "self" or ps[1] not in ("other", "o", "rhs", "right", "peer"):
        return out
    o = ps[1]
    for c in ast.walk(fn_node):
        if not isinstance(c, (ast.Call, ast.Compare)):
            continue
        args = list(c.args) if isinstance(c, ast.Call) else [c.left] + list(c.comparators)
        sa = collections.Counter(a.attr for a in args if isinstance(a, ast.Attribute) and isinstance(a.value, ast.Name) and a.value.id == "self")
        oa = collections.Counter(a.attr for a in args if isinstance(a, ast.Attribute) and isinstance(a.value, ast.Name) and a.value.id == o)
        if sa and oa and sum(sa.values()) + sum(oa.values()) >= 3 and sa != oa:
            diff = sorted((sa - oa).keys()) + sorted((oa - sa).keys())
            out.append((c, f"unbalanced-peer-args:{','.join(diff)[:30]}", f"`{A.unparse(c)[:80]}` takes {dict(sa)} from self but {dict(oa)} from {o}: the two operands do not contribute the "
                        f"same fields, so the result ignores (or doubles) one side's `{diff[0]}`"))
    return out


def id_in_hash(fn_node):
    """``__hash__`` built from ``id(...)`` of parts while ``__eq__`` compares the parts by value: equal objects whose parts are
    equal-but-distinct instances hash differently (dict / set / cache lookups miss)."""
    out = []
    if getattr(fn_node, "name", "") != "__hash__":
        return out
    for c in ast.walk(fn_node):
        if (isinstance(c, ast.Call) and isinstance(c.func, ast.Name) and c.func.id == "id") or (isinstance(c, ast.Name) and c.id == "id" and isinstance(getattr(c, "_parent", None), ast.Call)
                                                                                              and c in getattr(c._parent, "args", [])):
            out.append((c, "id-in-hash", "`__hash__` is computed from the identity (`id`) of the object's parts: two objects that compare equal but were built from equal, distinct parts "
                        "hash differently"))
            break
    return out


def set_op_with_sequence_default(fn_node):
    """``seen |= groups.get(name, ())`` — the in-place set operators accept only sets; the tuple / list fallback for a missing
    key raises TypeError exactly in the "unknown name" case the fallback was written for (``.update()`` accepted any iterable)."""
    out = []
    for n in ast.walk(fn_node):
        if isinstance(n, ast.AugAssign) and isinstance(n.op, (ast.BitOr, ast.BitAnd, ast.Sub, ast.BitXor)):
            v = n.value
            dflt = None
            if isinstance(v, ast.Call) and isinstance(v.func, ast.Attribute) and v.func.attr == "get" and len(v.args) == 2:
                dflt = v.args[1]
            elif isinstance(v, (ast.Tuple, ast.List)) and not v.elts:
                dflt = v
            if isinstance(dflt, (ast.Tuple, ast.List)):
                out.append((n, "set-op-sequence-default", f"`{A.unparse(n)[:60]}` applies an in-place set operator to a value that falls back to `{A.unparse(dflt)}`: for a set on the left "
                            f"this raises TypeError in exactly the missing-key case"))
    return out


def loop_flag_overwritten(fn_node):
    """``changed = False; for x in xs: ...; changed = cond(x)`` (or ``if changed := cond(x):``) and ``changed`` is consulted after
    the loop: the flag is overwritten by every item instead of accumulated, so only the LAST item decides."""
    out = []
    for loop in [n for n in ast.walk(fn_node) if isinstance(n, (ast.For, ast.While))]:
        par_body = None
        par = getattr(loop, "_parent", None)
        for fld in ("body", "orelse", "finalbody"):
            b = getattr(par, fld, None)
            if isinstance(b, list) and loop in b:
                par_body = b
        if par_body is None:
            continue
        idx = par_body.index(loop)
        init = {}
        for st in par_body[:idx]:
            if isinstance(st, ast.Assign) and len(st.targets) == 1 and isinstance(st.targets[0], ast.Name) and isinstance(st.value, ast.Constant) and st.value.value is False:
                init[st.targets[0].id] = st
        if isinstance(loop, ast.While) and isinstance(loop.test, ast.Name):
            # while flag: flag = False; for ...: flag = <expr>   (the re-arm of a fixpoint loop)
            first = loop.body[0] if loop.body else None
            if isinstance(first, ast.Assign) and len(first.targets) == 1 and isinstance(first.targets[0], ast.Name) and first.targets[0].id == loop.test.id \
                    and isinstance(first.value, ast.Constant) and first.value.value is False:
                for inner in [n for n in ast.walk(loop) if isinstance(n, ast.For) and n is not loop]:
                    _flag_writes(inner, loop.test.id, out, "the enclosing `while` consults it to decide whether to go round again")
            continue
        if not init:
            continue
        used_after = {n.id for st in par_body[idx + 1:] for n in ast.walk(st) if isinstance(n, ast.Name) and isinstance(n.ctx, ast.Load)}
        for name in init:
            if name in used_after:
                _flag_writes(loop, name, out, "it is consulted after the loop")
    return out


def _flag_writes(loop, name, out, why):
    for n in ast.walk(loop):
        val = None
        if isinstance(n, ast.Assign) and len(n.targets) == 1 and isinstance(n.targets[0], ast.Name) and n.targets[0].id == name:
            val = n.value
        elif isinstance(n, ast.NamedExpr) and isinstance(n.target, ast.Name) and n.target.id == name:
            val = n.value
        if val is None or isinstance(val, ast.Constant):
            continue
        if any(isinstance(x, ast.Name) and x.id == name for x in ast.walk(val)):
            continue  # changed = changed or ...
        out.append((n, f"loop-flag-overwritten:{name}", f"`{A.unparse(n)[:60]}` assigns the flag `{name}` afresh for every item of the loop; {why}, so only the last item's outcome counts "
                    f"(accumulate: `{name} = {name} or ...` / set it to True under the condition)"))


def identity_on_quantity(fn_node):
    """``x.uid is bad`` — identity instead of equality on numbers: true for CPython's cached small ints (the classic 250 / 1 / 2
    of the test fixtures), false for the same value above 256 or read from stat(), so the branch silently never fires there."""
    out = []
    for c in ast.walk(fn_node):
        if isinstance(c, ast.Compare) and len(c.ops) == 1 and isinstance(c.ops[0], (ast.Is, ast.IsNot)):
            sides = [c.left, c.comparators[0]]
            if any(isinstance(s, ast.Constant) and (s.value is None or isinstance(s.value, bool) or s.value is Ellipsis) for s in sides):
                continue
            for s in sides:
                nm = s.attr if isinstance(s, ast.Attribute) else (s.id if isinstance(s, ast.Name) else None)
                if nm and _QUANTITY_OR.match(nm):
                    out.append((c, f"identity-on-quantity:{nm}", f"`{A.unparse(c)}` compares a number by identity: it holds for small cached ints only, not for equal values above 256 "
                                f"or obtained from stat()/pwd"))
                    break
    return out


def conditional_reraise(fn_node):
    """``except Exception: if f is not None: f.discard(); raise`` — the ``raise`` ended up under a condition that has nothing to do
    with the exception: when the condition is false the handler falls through and the failure is swallowed."""
    out = []
    for t in ast.walk(fn_node):
        if not isinstance(t, ast.Try):
            continue
        for h in t.handlers:
            if not h.body:
                continue
            last = h.body[-1]
            if isinstance(last, ast.If) and not last.orelse and last.body and isinstance(last.body[-1], ast.Raise) and last.body[-1].exc is None:
                mentions_exc = h.name is not None and any(isinstance(n, ast.Name) and n.id == h.name for n in ast.walk(last.test))
                others_raise = any(isinstance(n, ast.Raise) for s in h.body[:-1] for n in ast.walk(s))
                params = {a.arg for a in ast.walk(fn_node.args) if isinstance(a, ast.arg)} if hasattr(fn_node, "args") else set()
                policy_flag = any(isinstance(n, ast.Name) and n.id in params and n.id not in ("self", "cls") for n in ast.walk(last.test))
                if not mentions_exc and not others_raise and not policy_flag:
                    out.append((last, "conditional-reraise", f"the handler's bare `raise` sits under `if {A.unparse(last.test)[:50]}`, a condition unrelated to the exception: when it is false "
                                f"the handler falls through and the failure is silently swallowed"))
    return out


def loop_variable_reused(fn_node):
    """``for x in items: ... for n, x in pending[x]: ...`` — an inner loop's target rebinds the outer loop's variable: after the
    inner loop (and from its second turn on) the outer variable holds an inner element, and what follows in the outer body
    works on the wrong object."""
    out = []
    for outer in [n for n in ast.walk(fn_node) if isinstance(n, ast.For)]:
        outer_names = set(A.assigned_names(outer.target))
        for inner in [n for s in outer.body for n in ast.walk(s) if isinstance(n, ast.For)]:
            if isinstance(inner.iter, ast.Name) and any(isinstance(n, ast.Name) and n.id == inner.iter.id for n in ast.walk(outer.iter)):
                continue  # the inner loop deliberately continues on the iterator the outer loop walks
            clash = outer_names & set(A.assigned_names(inner.target))
            for name in sorted(clash):
                # only when the outer body still reads the name after the inner loop
                after = False
                for s in outer.body:
                    for n in ast.walk(s):
                        if isinstance(n, ast.Name) and n.id == name and isinstance(n.ctx, ast.Load) and getattr(n, "lineno", 0) > (inner.end_lineno or inner.lineno):
                            after = True
                if after or any(isinstance(n, ast.Name) and n.id == name for n in ast.walk(inner.iter)):
                    out.append((inner, f"loop-variable-reused:{name}", f"the inner `for {A.unparse(inner.target)} in {A.unparse(inner.iter)[:40]}` rebinds `{name}`, the variable of the enclosing "
                                f"`for {A.unparse(outer.target)} in …` loop: after the inner loop the outer body continues with an inner element in `{name}`"))
    return out


_ITEM_ERRORS = {"AttributeError", "KeyError", "ValueError", "TypeError", "IndexError", "LookupError"}


def item_error_around_loop(fn_node):
    """``try: for x in xs: use(x.attr)  except AttributeError: pass`` — an error that comes from handling ONE item is caught
    around the whole loop: the first such item ends the loop, the items after it are skipped without a trace."""
    out = []
    for t in ast.walk(fn_node):
        if not isinstance(t, ast.Try) or len(t.body) != 1 or not isinstance(t.body[0], (ast.For, ast.While)):
            continue
        for h in t.handlers:
            names = set(_handler_names(h))
            if names and names <= _ITEM_ERRORS and _can_fall_through(h.body) and not any(isinstance(n, (ast.Raise, ast.Return)) for s in h.body for n in ast.walk(s)):
                out.append((t, "item-error-around-loop", f"`except {', '.join(sorted(names))}` (which swallows) encloses the whole `{A.unparse(t.body[0]).splitlines()[0][:60]}` loop: "
                            f"the first item that raises ends the loop and every later item is skipped silently"))
    return out


def loop_target_clobbers(fn_node):
    """``repo = pick(); ... for repo in installed: ...; use(repo)`` — a loop reuses, as its loop variable, a name that was
    bound to something else before the loop and is read again after it: past the loop the name holds the last element (or the
    old value when the loop did not run), and the later code silently works on the wrong object."""
    out = []
    for loop in [n for n in ast.walk(fn_node) if isinstance(n, ast.For)]:
        for name in set(A.assigned_names(loop.target)):
            before = [st for st in ast.walk(fn_node) if isinstance(st, ast.Assign) and any(isinstance(t, ast.Name) and t.id == name for t in st.targets)
                      and st.lineno < loop.lineno and isinstance(st.value, (ast.Call, ast.Attribute, ast.Subscript))]
            if not before:
                continue
            end = loop.end_lineno or loop.lineno
            reads = [n for n in ast.walk(fn_node) if isinstance(n, ast.Name) and n.id == name and isinstance(n.ctx, ast.Load) and n.lineno > end]
            rebinds = [n for n in ast.walk(fn_node) if isinstance(n, ast.Name) and n.id == name and isinstance(n.ctx, ast.Store) and n.lineno > end]
            other = [l2 for l2 in ast.walk(fn_node) if isinstance(l2, ast.For) and l2 is not loop and name in A.assigned_names(l2.target)]
            if reads and not rebinds and not other:
                out.append((loop, f"loop-target-clobbers:{name}", f"`for {A.unparse(loop.target)} in {A.unparse(loop.iter)[:40]}` reuses `{name}`, which was bound at line {before[0].lineno} "
                            f"(`{A.unparse(before[0])[:50]}`) and is read again at line {reads[0].lineno}: after the loop the name no longer holds that value"))
    return out


def keyerror_on_defaultdict(cls_info):
    """``try: items = self._dict[key]  except KeyError: ...`` where ``self._dict`` is (or can be) a ``defaultdict``: the lookup
    never raises — it *creates* the entry from the factory — so the fallback never runs and a lookup leaves a stored,
    possibly stale, default behind (``.get(key)`` neither inserts nor raises)."""
    out = []
    dd = set()
    for m in cls_info.methods.values():
        ps = m.params()
        if not ps:
            continue
        for t, v, st in A.assignments(m.node):
            a = A.self_attr(t, ps[0])
            if a and isinstance(v, ast.Call) and A.unparse(v.func).split(".")[-1] == "defaultdict":
                dd.add(a)
    if not dd:
        return out
    for mname, m in cls_info.methods.items():
        ps = m.params()
        if not ps:
            continue
        for t in ast.walk(m.node):
            if not isinstance(t, ast.Try) or not any("KeyError" in _handler_names(h) or "LookupError" in _handler_names(h) for h in t.handlers):
                continue
            for n in (x for s in t.body for x in ast.walk(s)):
                if isinstance(n, ast.Subscript) and isinstance(n.ctx, ast.Load) and A.self_attr(n.value, ps[0]) in dd:
                    out.append((n, f"keyerror-on-defaultdict:{A.self_attr(n.value, ps[0])}", f"{cls_info.name}.{mname} looks `{A.unparse(n)}` up under `except KeyError`, but "
                                f"`self.{A.self_attr(n.value, ps[0])}` is built as a defaultdict: the lookup never raises, it inserts the factory's value — the fallback is dead and every "
                                f"lookup of a missing key stores a default that later code takes for real data"))
    return out


def mode_mask_drops_special_bits(fn_node):
    """``mode & 0o777`` on a file mode: the permission part of a mode is 0o7777 (``stat.S_IMODE``); masking with 0o777
    silently strips setuid / setgid / sticky from what is recorded or applied."""
    out = []
    for n in ast.walk(fn_node):
        if isinstance(n, ast.BinOp) and isinstance(n.op, ast.BitAnd):
            for a, b in ((n.left, n.right), (n.right, n.left)):
                if isinstance(b, ast.Constant) and b.value == 0o777:
                    nm = a.attr if isinstance(a, ast.Attribute) else (a.id if isinstance(a, ast.Name) else (A.unparse(a) if isinstance(a, ast.Subscript) else None))
                    if nm and ("mode" in nm.lower() or "ST_MODE" in nm):
                        out.append((n, "mode-mask-0o777", f"`{A.unparse(n)}` keeps only rwx bits of a file mode: setuid, setgid and sticky (0o7000) are dropped — the permission mask "
                                    f"of a mode is 0o7777 (stat.S_IMODE)"))
    return out


def copyfileobj_length_confusion(fn_node):
    """``shutil.copyfileobj(src, dst, start)`` — the third argument is a *buffer size*, not a byte limit: the whole source is
    copied whatever number is passed."""
    out = []
    for c in ast.walk(fn_node):
        if isinstance(c, ast.Call) and A.unparse(c.func).split(".")[-1] == "copyfileobj":
            third = c.args[2] if len(c.args) >= 3 else next((k.value for k in c.keywords if k.arg == "length"), None)
            if third is not None and not isinstance(third, ast.Constant):
                nm = A.unparse(third).lower()
                if not any(w in nm for w in ("buf", "chunk", "block")):
                    out.append((c, "copyfileobj-length", f"`{A.unparse(c)[:70]}` passes `{A.unparse(third)}` as third argument of copyfileobj: that parameter is the copy buffer size — "
                                f"the entire source is copied, not the first `{A.unparse(third)}` bytes"))
    return out


def child_status_conjoined(fn_node):
    """``ret, output = spawn_get_output(cmd)`` … ``if ret and output: raise …`` — the child's failure status is reported only
    when something else (its output being non-empty, a flag) also holds: a child that fails silently is taken for a success.
    Exact shape: the status name (first element bound from a ``spawn*`` call / a ``.returncode``) is one operand of an ``and``
    whose ``if`` body raises, and no other ``if`` in the function tests the status on its own."""
    out = []
    status = {}
    for n in ast.walk(fn_node):
        if isinstance(n, ast.Assign) and isinstance(n.value, ast.Call):
            d = A.unparse(n.value.func).split(".")[-1]
            t = n.targets[0]
            if d.startswith("spawn"):
                if isinstance(t, ast.Tuple) and t.elts and isinstance(t.elts[0], ast.Name):
                    status[t.elts[0].id] = n
                elif isinstance(t, ast.Name):
                    status[t.id] = n
    if not status:
        return out

    def is_status(e):
        if isinstance(e, ast.Name) and e.id in status:
            return e.id
        if isinstance(e, ast.Compare) and len(e.ops) == 1 and isinstance(e.ops[0], (ast.NotEq, ast.Gt)) and isinstance(e.left, ast.Name) and e.left.id in status \
                and isinstance(e.comparators[0], ast.Constant) and e.comparators[0].value == 0:
            return e.left.id
        return None
    alone = {is_status(i.test) for i in ast.walk(fn_node) if isinstance(i, ast.If)} - {None}
    for i in ast.walk(fn_node):
        if isinstance(i, ast.If) and isinstance(i.test, ast.BoolOp) and isinstance(i.test.op, ast.And) and len(i.test.values) >= 2:
            st = [is_status(v) for v in i.test.values]
            nm = next((x for x in st if x), None)
            if nm and nm not in alone and any(isinstance(r, ast.Raise) for b in i.body for r in ast.walk(b)):
                others = " and ".join(A.unparse(v) for v, x in zip(i.test.values, st) if not x)
                out.append((i, f"child-status-conjoined:{nm}", f"the child's exit status `{nm}` (from `{A.unparse(status[nm].value.func)}`) is reported only when `{others}` holds as well: "
                            f"a child that fails without that (no output, flag unset) is answered as a success"))
    return out

