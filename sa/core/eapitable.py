"""Static evaluation of the EAPI registration chain in ebuild/eapi.py (DESIGN §2.3, C03.R2).

Nothing is imported: ``eapiN = EAPI.register(magic=..., parent=..., optionals=_combine_dicts(parent.options, {...}),
dep_keys=parent.dep_keys | frozenset([...]))`` is folded into one option table per EAPI."""
from __future__ import annotations

import ast

from . import astutil as A
from .model import dotted
from .report import AnalysisError

OPAQUE = "<non-literal>"

# first EAPI enabling an option, per PMS (frozen reference; amended deliberately when PMS changes)
PMS_FIRST_ENABLED = {
    "has_slot_deps": "1",
    "iuse_defaults": "1",
    "has_use_deps": "2",
    "strong_blockers": "2",
    "transitive_use_atoms": "2",
    "src_uri_renames": "2",
    "doman_language_detect": "2",
    "has_use_dep_defaults": "4",
    "has_required_use": "4",
    "dodoc_allow_recursive": "4",
    "doman_language_override": "4",
    "sub_slotting": "5",
    "required_use_one_of": "5",
    "accumulate_properties_restrict": "8",
    "dosym_relative": "8",
}


def _lit_dict(node):
    out = {}
    if isinstance(node, ast.Call) and node.args:  # ImmutableDict({...})
        node = node.args[0]
    if not isinstance(node, ast.Dict):
        raise AnalysisError("eapi option table is not a dict display")
    for k, v in zip(node.keys, node.values):
        key = A.try_literal(k)
        if not isinstance(key, str):
            raise AnalysisError("eapi option key is not a string literal")
        out[key] = A.try_literal(v, default=OPAQUE)
    return out


class EapiTables:
    def __init__(self, program):
        self.mod = program.module("pkgcore.ebuild.eapi")
        self.regs = {}  # var name -> Call
        for name, v in self.mod.assigns.items():
            if isinstance(v, ast.Call) and dotted(v.func) == "EAPI.register":
                self.regs[name] = v
        if len(self.regs) < 9:
            raise AnalysisError(f"eapi.py: only {len(self.regs)} EAPI.register(...) assignments found")
        self._opt_cache = {}
        self._dep_cache = {}

    def kw(self, var, name):
        for k in self.regs[var].keywords:
            if k.arg == name:
                return k.value
        return None

    def magic(self, var):
        return A.try_literal(self.kw(var, "magic"))

    def by_magic(self):
        return {self.magic(v): v for v in self.regs}

    def options(self, var):
        if var in self._opt_cache:
            return self._opt_cache[var]
        node = self.kw(var, "optionals")
        res = self._eval_opts(node)
        self._opt_cache[var] = res
        return res

    def _eval_opts(self, node):
        if isinstance(node, ast.Name):
            if node.id in self.mod.assigns:
                return _lit_dict(self.mod.assigns[node.id])
            raise AnalysisError(f"eapi.py: option source {node.id} not found")
        if isinstance(node, ast.Attribute) and node.attr == "options" and isinstance(node.value, ast.Name) and node.value.id in self.regs:
            return dict(self.options(node.value.id))
        if isinstance(node, ast.Call) and dotted(node.func) == "_combine_dicts":
            out = {}
            for a in node.args:
                if isinstance(a, ast.Dict):
                    out.update(_lit_dict(a))
                else:
                    out.update(self._eval_opts(a))
            return out
        if isinstance(node, ast.Dict) or isinstance(node, ast.Call):
            return _lit_dict(node)
        raise AnalysisError(f"eapi.py: cannot evaluate optionals expression {A.unparse(node)[:60]}")

    def setlike(self, var, kwname):
        key = (var, kwname)
        if key in self._dep_cache:
            return self._dep_cache[key]
        res = self._eval_set(self.kw(var, kwname), kwname)
        self._dep_cache[key] = res
        return res

    def _eval_set(self, node, kwname):
        if isinstance(node, ast.Name):
            v = self.mod.assigns.get(node.id)
            if v is None:
                raise AnalysisError(f"eapi.py: {node.id} not found")
            return self._eval_set(v, kwname)
        if isinstance(node, ast.Attribute) and isinstance(node.value, ast.Name) and node.value.id in self.regs:
            return set(self.setlike(node.value.id, node.attr if node.attr != "options" else kwname))
        if isinstance(node, ast.BinOp) and isinstance(node.op, (ast.BitOr, ast.Sub)):
            l, r = self._eval_set(node.left, kwname), self._eval_set(node.right, kwname)
            return (l | r) if isinstance(node.op, ast.BitOr) else (l - r)
        val = A.try_literal(node)
        if isinstance(val, (set, frozenset, tuple, list)):
            return set(val)
        raise AnalysisError(f"eapi.py: cannot evaluate set expression {A.unparse(node)[:60]}")

    def first_enabled(self, option):
        """magic of the first EAPI (numeric order) whose table enables ``option`` and every later one keeps it."""
        mags = sorted((m for m in self.by_magic() if m is not None and m.isdigit()), key=int)
        first = None
        for m in mags:
            v = self.options(self.by_magic()[m]).get(option)
            if v is True and first is None:
                first = m
            if v is not True and first is not None:
                return f"{first} (dropped again in {m})"
        return first


def module_charsets(mod):
    """Evaluate the module-level construction of character sets in atom.py:
    ``X = set(string.digits)``, ``X.update("...")``, ``X = frozenset(X)``."""
    import string as _string

    env = {}
    consts = {"string.digits": _string.digits, "string.ascii_letters": _string.ascii_letters,
              "string.ascii_lowercase": _string.ascii_lowercase, "string.ascii_uppercase": _string.ascii_uppercase}

    def ev(n):
        d = dotted(n)
        if d in consts:
            return consts[d]
        if isinstance(n, ast.Name) and n.id in env:
            return env[n.id]
        if isinstance(n, ast.Constant) and isinstance(n.value, str):
            return n.value
        if isinstance(n, ast.Call) and dotted(n.func) in ("set", "frozenset") and len(n.args) == 1:
            v = ev(n.args[0])
            return None if v is None else set(v)
        if isinstance(n, (ast.List, ast.Tuple, ast.Set)):
            vals = [ev(e) for e in n.elts]
            return None if any(v is None for v in vals) else set(vals)
        return None

    for st in mod.tree.body:
        if isinstance(st, ast.Assign) and len(st.targets) == 1 and isinstance(st.targets[0], ast.Name):
            v = ev(st.value)
            if v is not None:
                env[st.targets[0].id] = v
        elif isinstance(st, ast.Expr) and isinstance(st.value, ast.Call) and isinstance(st.value.func, ast.Attribute):
            f = st.value.func
            if f.attr == "update" and isinstance(f.value, ast.Name) and f.value.id in env and st.value.args:
                v = ev(st.value.args[0])
                if v is not None and isinstance(env[f.value.id], set):
                    env[f.value.id] = set(env[f.value.id]) | set(v)
    return env
