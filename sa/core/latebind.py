"""Late-binding closures created in loops.

A lambda / nested function / generator expression created inside a loop body sees the loop's variables *by name*: if it
is still alive after the iteration that created it (stored, appended, returned, chained into the next iteration's
value), every survivor reads the values of the **last** iteration.  Typical victim: a cross-product built as a chain of
generator expressions in a ``for`` loop.  Immediately consumed closures (``sorted(key=lambda ...)``, ``any(... for
...)``) are fine and not reported.  For a generator expression the first ``for`` clause's iterable is evaluated eagerly
and therefore does not count."""
from __future__ import annotations

import ast

CONSUMERS = {"any", "all", "sum", "list", "tuple", "set", "frozenset", "sorted", "min", "max", "dict", "join",
             "next", "len", "extend", "update", "stable_unique", "str", "bool"}
CLOSURES = (ast.Lambda, ast.GeneratorExp, ast.FunctionDef, ast.AsyncFunctionDef)


def _bound_inside(cl):
    """names bound by the closure itself (parameters, comprehension targets, local stores)"""
    out = set()
    if isinstance(cl, (ast.Lambda, ast.FunctionDef, ast.AsyncFunctionDef)):
        for a in ast.walk(cl.args):
            if isinstance(a, ast.arg):
                out.add(a.arg)
    for n in ast.walk(cl):
        if isinstance(n, ast.Name) and isinstance(n.ctx, ast.Store):
            out.add(n.id)
    return out


def _late_reads(cl):
    """Name loads evaluated when the closure runs (not when it is created)"""
    eager = set()
    if isinstance(cl, ast.GeneratorExp):
        for n in ast.walk(cl.generators[0].iter):
            eager.add(id(n))
    if isinstance(cl, (ast.Lambda, ast.FunctionDef, ast.AsyncFunctionDef)):
        for d in list(cl.args.defaults) + [x for x in cl.args.kw_defaults if x is not None]:
            for n in ast.walk(d):
                eager.add(id(n))
        for d in getattr(cl, "decorator_list", []):
            for n in ast.walk(d):
                eager.add(id(n))
    return [n for n in ast.walk(cl) if isinstance(n, ast.Name) and isinstance(n.ctx, ast.Load) and id(n) not in eager]


LAZY = {"chain", "map", "filter", "zip", "zip_longest", "islice", "partial", "imap", "ifilter", "izip", "iter",
        "enumerate", "reversed", "expandable_chain", "caching_iter", "iflatten_instance", "iflatten_func", "starmap",
        "product", "from_iterable"}


def _context(expr, loop, fn_node, depth=0):
    """What happens to the value of ``expr`` (the closure, or a name holding it): None when it is used up within the
    iteration that created it, else a description of how it survives."""
    child, p = expr, getattr(expr, "_parent", None)
    while p is not None and p is not loop and p is not fn_node:
        if isinstance(p, ast.Call) and child is not p.func:
            f = p.func
            nm = f.id if isinstance(f, ast.Name) else (f.attr if isinstance(f, ast.Attribute) else "")
            if any(k.value is child for k in p.keywords if k.arg == "key"):
                return None
            if nm in ("append", "add", "insert", "appendleft", "setdefault", "put"):
                return f"stored with .{nm}()"
            if nm not in LAZY:
                return None  # an ordinary (eager) call uses its argument before returning
            # lazy wrapper: its result holds on to the closure; keep climbing
        elif isinstance(p, (ast.For, ast.AsyncFor, ast.comprehension)) and child is p.iter:
            if isinstance(p, ast.comprehension):
                owner = getattr(p, "_parent", None)
                if isinstance(owner, ast.GeneratorExp):
                    child, p = owner, getattr(owner, "_parent", None)
                    continue
            return None
        elif isinstance(p, ast.YieldFrom):
            return None
        elif isinstance(p, ast.Yield):
            return "yielded while the loop goes on"
        elif isinstance(p, ast.Return):
            return None
        elif isinstance(p, (ast.Assign, ast.AnnAssign, ast.NamedExpr, ast.AugAssign)):
            tgts = p.targets if isinstance(p, ast.Assign) else [p.target]
            names = [t.id for t in tgts if isinstance(t, ast.Name)]
            if len(names) != len(tgts):
                return "stored into an attribute / container"
            if depth > 3:
                return "assigned onwards"
            for v in names:
                r = _trace_var(v, p if isinstance(p, ast.stmt) else _stmt(p), loop, fn_node, depth + 1)
                if r:
                    return r
            return None
        elif isinstance(p, ast.stmt):
            return None
        child, p = p, getattr(p, "_parent", None)
    return None


def _stmt(n):
    while n is not None and not isinstance(n, ast.stmt):
        n = getattr(n, "_parent", None)
    return n


def _inside(n, root):
    while n is not None:
        if n is root:
            return True
        n = getattr(n, "_parent", None)
    return False


def _defs_uses(cfg, v):
    """per CFG node: does its header define / read ``v``"""
    from .effects import _stmt_defs, _header_exprs
    defs, uses = set(), {}
    for n in cfg.nodes:
        if n.ast is None:
            continue
        if any(d.name == v for d in _stmt_defs(n.ast)):
            defs.add(n.id)
        for h in _header_exprs(n.ast):
            for x in ast.walk(h):
                if isinstance(x, ast.Name) and x.id == v and isinstance(x.ctx, ast.Load):
                    uses.setdefault(n.id, []).append(x)
    return defs, uses


def _trace_var(v, assign_stmt, loop, fn_node, depth):
    """The closure was bound to ``v`` at ``assign_stmt`` (inside ``loop``).  Follow that definition along the CFG:
    uses reached without going through the loop head belong to the same iteration and are judged by their context;
    a use reached *after* the loop head (next iteration, or after the loop) while the definition is still live means
    the closure outlived its iteration."""
    from .cfg import cfg_of
    cfg = cfg_of(fn_node)
    start = cfg.node_of(assign_stmt)
    head = cfg.node_of(loop)
    if start is None or head is None:
        return None
    defs, uses = _defs_uses(cfg, v)

    def flood(srcs, stop):
        seen, order, work = set(), [], list(srcs)
        while work:
            n = work.pop()
            if n.id in seen or n.id in stop:
                continue
            seen.add(n.id)
            order.append(n)
            if n.id in defs:
                continue  # redefined here: the old value is read by this header at most, then gone
            work.extend(s for s, _ in n.succ)
        return order

    same_iter = flood([s for s, _ in start.succ], {head.id})
    beyond = []
    if any(s is head for n in same_iter + [start] for s, _ in n.succ):
        beyond = flood([head], set())
    for n in beyond:
        for u in uses.get(n.id, ()):
            if isinstance(assign_stmt, ast.stmt) and _inside(u, assign_stmt) and isinstance(assign_stmt, (ast.FunctionDef, ast.AsyncFunctionDef)):
                continue
            where = "after the loop" if not _inside(u, loop) else "in a later iteration"
            return f"`{v}` still holds it when read {where} (line {u.lineno})"
    for n in same_iter:
        for u in uses.get(n.id, ()):
            r = _context(u, loop, fn_node, depth)
            if r:
                return r
    return None


def _escapes(cl, loop, fn_node):
    """how the closure object outlives the iteration that creates it (None: used up on the spot)"""
    if isinstance(cl, (ast.FunctionDef, ast.AsyncFunctionDef)):
        return _trace_var(cl.name, cl, loop, fn_node, 0)
    return _context(cl, loop, fn_node)


def findings(fn_node):
    """[(closure node, loop node, variable name, how it escapes)]"""
    out = []
    for loop in ast.walk(fn_node):
        if not isinstance(loop, (ast.For, ast.AsyncFor, ast.While)):
            continue
        own = getattr(loop, "_parent", None)
        while own is not None and not isinstance(own, (ast.FunctionDef, ast.AsyncFunctionDef, ast.Lambda)):
            own = getattr(own, "_parent", None)
        if own is not fn_node:
            continue  # belongs to a nested function: judged there
        loop_vars = set()
        if isinstance(loop, (ast.For, ast.AsyncFor)):
            loop_vars |= {n.id for n in ast.walk(loop.target) if isinstance(n, ast.Name)}
        body_closures = []
        for st in loop.body:
            for n in ast.walk(st):
                if isinstance(n, CLOSURES):
                    body_closures.append(n)
        if not body_closures:
            continue
        inside_closures = set()
        for c in body_closures:
            for n in ast.walk(c):
                if n is not c:
                    inside_closures.add(id(n))
        for st in loop.body:
            for n in ast.walk(st):
                if isinstance(n, ast.Name) and isinstance(n.ctx, ast.Store) and id(n) not in inside_closures:
                    loop_vars.add(n.id)
        for c in body_closures:
            if id(c) in inside_closures:
                continue  # nested in another closure: the outer one is judged
            bound = _bound_inside(c)
            if isinstance(c, ast.GeneratorExp):
                pass
            names = sorted({n.id for n in _late_reads(c) if n.id in loop_vars and n.id not in bound})
            if not names:
                continue
            how = _escapes(c, loop, fn_node)
            if how is None:
                continue
            # a variable the closure is itself assigned to and reads eagerly (prev = (.. for x in prev)) is the
            # chaining idiom: only the *late* reads count, which _late_reads already ensures
            out.append((c, loop, names, how))
    return out
