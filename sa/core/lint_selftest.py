"""Positive / negative examples for the zero-count analyses of the generic pack.

Every analysis of rule G is expected to report *nothing* on the tree as it stands; a rule that can never match would pass
for ever.  Each entry below is a tiny program the analysis must flag (``bad``) and a repaired twin it must leave alone
(``good``).  The examples are parsed, never executed.  ``run()`` returns (number checked, list of failures)."""
from __future__ import annotations

import ast
import textwrap

from . import lints, fmtmix, capture, bashscope

FN = [  # (lint over a function node, bad, good)
    (lints.dup_operands, "def f(a, b):\n    return a[0] != '0' and a[0] != '0'\n", "def f(a, b):\n    return a[0] != '0' and b[0] != '0'\n"),
    (lints.mutable_default, "def f(x, seen={}):\n    seen[x] = 1\n    return x\n", "def f(x, seen=None):\n    seen = {} if seen is None else seen\n    seen[x] = 1\n    return x\n"),
    (lints.stored_iterator, "class K:\n    def f(self, xs):\n        self.block = (x.strip() for x in xs)\n", "class K:\n    def f(self, xs):\n        self.block = tuple(x.strip() for x in xs)\n"),
    (lints.seq_equal_by_zip, "def f(a, b):\n    return all(x == y for x, y in zip(a, b))\n", "def f(a, b):\n    return len(a) == len(b) and all(x == y for x, y in zip(a, b, strict=True))\n"),
    (lints.quantity_truthiness, "def f(d):\n    m = d.mode\n    if m:\n        chmod(d, m)\n", "def f(d):\n    m = d.mode\n    if m is not None:\n        chmod(d, m)\n"),
    (lints.swallowed_fs_failure, "import os\ndef f(p, u, g):\n    try:\n        os.lchown(p, u, g)\n    except OSError:\n        pass\n", "import os\ndef f(p, u, g):\n    os.lchown(p, u, g)\n"),
    (lints.errno_tolerance_around_loop, "import os, errno\ndef f(ds):\n    try:\n        for d in ds:\n            os.rmdir(d)\n    except OSError as e:\n        if e.errno != errno.ENOTEMPTY:\n            raise\n",
     "import os, errno\ndef f(ds):\n    for d in ds:\n        try:\n            os.rmdir(d)\n        except OSError as e:\n            if e.errno != errno.ENOTEMPTY:\n                raise\n"),
    (lints.broad_try_around_loop, "def f(xs, log):\n    try:\n        for x in xs:\n            work(x)\n    except Exception:\n        log('failed')\n", "def f(xs, log):\n    for x in xs:\n        try:\n            work(x)\n        except Exception:\n            log('failed')\n"),
    (lints.stale_precomputed_hash, "class K:\n    def __init__(self, a, b):\n        self.a = a\n        self._hash = hash((self.a, b))\n        if not b:\n            self.a = None\n",
     "class K:\n    def __init__(self, a, b):\n        self.a = a if b else None\n        self._hash = hash((self.a, b))\n"),
    (lints.crossed_family_update, "def f(r):\n    cat_exact, pkg_exact, cat_restrict, pkg_restrict = set(), set(), set(), set()\n    pkg_restrict.add(g(cat_exact))\n    return cat_restrict, pkg_exact\n",
     "def f(r):\n    cat_exact, pkg_exact, cat_restrict, pkg_restrict = set(), set(), set(), set()\n    pkg_restrict.add(g(pkg_exact))\n    return cat_restrict, cat_exact\n"),
    (lints.guard_add_mismatch, "def f(items, seen):\n    for item in items:\n        i = item[1:]\n        if i not in seen:\n            seen.add(item)\n", "def f(items, seen):\n    for item in items:\n        i = item[1:]\n        if i not in seen:\n            seen.add(i)\n"),
    (lints.open_without_trunc, "import os\ndef f(p, data):\n    fd = os.open(p, os.O_WRONLY | os.O_CREAT, 0o644)\n    os.write(fd, data)\n", "import os\ndef f(p, data):\n    fd = os.open(p, os.O_WRONLY | os.O_CREAT | os.O_TRUNC, 0o644)\n    os.write(fd, data)\n"),
    (lambda n: [(x, "t", "m") for x, _v in fmtmix.findings(n)], "def f(log, path, n):\n    log.info(f'removing {path}: %d left', n)\n", "def f(log, path, n):\n    log.info('removing %s: %d left', path, n)\n"),
    (lambda n: [(x, "t", "m") for x, _v in fmtmix.findings(n)], "def f(path, n):\n    return f'obj {path} %d' % n\n", "def f(path, n):\n    return 'obj %s %d' % (path, n)\n"),
]

BASH = [
    ("f() {\n\tlocal key\n\tfor key in a b; do\n\t\tacc+=( ${key} )\n\tdone\n\techo \"${acc[@]}\"\n}\n", "f() {\n\tlocal key acc\n\tfor key in a b; do\n\t\tacc+=( ${key} )\n\tdone\n\techo \"${acc[@]}\"\n}\n"),
]


def _first_func(src):
    tree = ast.parse(textwrap.dedent(src))
    for n in ast.walk(tree):
        for c in ast.iter_child_nodes(n):
            c._parent = n
    for n in ast.walk(tree):
        if isinstance(n, (ast.FunctionDef, ast.AsyncFunctionDef)):
            return n
    raise ValueError("no function in example")


def run():
    fails, n = [], 0
    for lint, bad, good in FN:
        name = getattr(lint, "__name__", "fmtmix")
        n += 1
        try:
            if not lint(_first_func(bad)):
                fails.append(f"{name}: positive example not matched")
            if lint(_first_func(good)):
                fails.append(f"{name}: repaired example still matched")
        except Exception as e:  # noqa
            fails.append(f"{name}: {type(e).__name__}: {e}")
    for bad, good in BASH:
        n += 1
        if not bashscope.uninitialised_accumulators(bad)[0]:
            fails.append("bashscope: positive example not matched")
        if bashscope.uninitialised_accumulators(good)[0]:
            fails.append("bashscope: repaired example still matched")
    return n, fails


# ---- analyses that need a class / a resolved program: a one-module program is built from the example text ---------------
def _mini(src):
    from .model import Program, ModuleInfo
    P = Program.__new__(Program)
    P.root, P.bash = "<examples>", {}
    mi = ModuleInfo("ex", "<examples>/ex.py", "ex.py", textwrap.dedent(src))
    P.modules, P.by_rel = {"ex": mi}, {"ex.py": mi}
    P.digest, P.n_modules, P.n_functions, P.n_classes, P.n_bash = "", 1, len(mi.funcs), len(mi.classes), 0
    return P, mi


def _cls(fn):
    def run_(src):
        P, mi = _mini(src)
        return [x for K in mi.classes.values() for x in fn(P, K)]
    run_.__name__ = getattr(fn, "__name__", "class-lint")
    return run_


def _memo(src):
    from . import effects, memokey
    P, mi = _mini(src)
    return [x for f in mi.funcs.values() for x in memokey.param_omitted(effects.engine(P).fx(f))]


def _partial(src):
    from . import generic
    from .report import Ctx
    P, mi = _mini(src)
    ctx = Ctx("C00", "quick", P, 0)
    generic.partial_bound_writes(ctx, "G", ["ex.py"])
    return list(ctx.findings)


def _gen_call(src):
    P, mi = _mini(src)
    return [x for f in mi.funcs.values() for x in lints.discarded_generator_call(P, f)]


PROG = [
    (_cls(lints.copy_drops_field), "from dataclasses import dataclass\n@dataclass\nclass C:\n    field: str\n    op: str\n    values: tuple = ()\n    negate: bool = False\n    def with_values(self, v):\n        return C(self.field, self.op, v)\n",
     "from dataclasses import dataclass, replace\n@dataclass\nclass C:\n    field: str\n    op: str\n    values: tuple = ()\n    negate: bool = False\n    def with_values(self, v):\n        return replace(self, values=v)\n"),
    (_cls(lints.optional_falsy_truthiness), "class L:\n    def __bool__(self):\n        return False\nclass U:\n    pl: L | None = None\n    def wire(self):\n        if self.pl:\n            return 1\n",
     "class L:\n    def __bool__(self):\n        return False\nclass U:\n    pl: L | None = None\n    def wire(self):\n        if self.pl is not None:\n            return 1\n"),
    (_cls(lambda P, K: lints.cached_injected_result(K)), "class M:\n    def __init__(self, pull):\n        self._pull = pull\n        self._cache = {}\n    def get(self, k):\n        self._cache[k] = v = self._pull(k)\n        return v\n",
     "class M:\n    def __init__(self, pull):\n        self._pull = pull\n        self._cache = {}\n    def get(self, k):\n        self._cache[k] = v = tuple(self._pull(k))\n        return v\n"),
    (_cls(lints.lazy_parse_not_invalidated), "class F:\n    def __init__(self, path):\n        self.path = path\n        self._loaded = False\n    def _load(self):\n        if self._loaded:\n            return\n        self.d = parse(self.path)\n        self._loaded = True\n    def update(self, data):\n        with open(self.path, 'w') as f:\n            f.write(data)\n        return True\n",
     "class F:\n    def __init__(self, path):\n        self.path = path\n        self._loaded = False\n    def _load(self):\n        if self._loaded:\n            return\n        self.d = parse(self.path)\n        self._loaded = True\n    def update(self, data):\n        with open(self.path, 'w') as f:\n            f.write(data)\n        self._loaded = False\n        return True\n"),
    (_cls(lambda P, K: lints.closes_borrowed_handle(K)), "class X:\n    def __init__(self, src, is_path):\n        self._src = src\n        self._is_path = is_path\n    @property\n    def _fd(self):\n        if self._is_path:\n            return open(self._src, 'rb')\n        return self._src\n    def keys(self):\n        with self._fd as fd:\n            return fd.read()\n",
     "class X:\n    def __init__(self, src, is_path):\n        self._src = src\n        self._is_path = is_path\n    @property\n    def _fd(self):\n        if self._is_path:\n            return open(self._src, 'rb')\n        return self._src\n    def keys(self):\n        fd = self._fd\n        return fd.read()\n"),
    (_cls(lambda P, K: capture.detached_keepers(K)), "class E:\n    def __init__(self):\n        self.preserve = ()\n        self.lazy = Lazy(self.preserve)\n    def add(self, n):\n        self.preserve += (n,)\n",
     "class E:\n    def __init__(self):\n        self.preserve = []\n        self.lazy = Lazy(self.preserve)\n    def add(self, n):\n        self.preserve.append(n)\n"),
    (_memo, "_memo = {}\ndef build(tokens, invert=False):\n    try:\n        return _memo[tokens]\n    except KeyError:\n        pass\n    s = '|'.join(tokens)\n    if invert:\n        s = '(?!' + s + ')'\n    r = _memo[tokens] = compile_(s)\n    return r\n",
     "_memo = {}\ndef build(tokens, invert=False):\n    try:\n        return _memo[tokens, invert]\n    except KeyError:\n        pass\n    s = '|'.join(tokens)\n    if invert:\n        s = '(?!' + s + ')'\n    r = _memo[tokens, invert] = compile_(s)\n    return r\n"),
    (_partial, "from functools import partial\nclass D:\n    def filters(self):\n        master = []\n        master.extend(self.settings)\n        return delegate(partial(self._apply, master))\n    def _apply(self, master, pkg):\n        acc = master\n        for a in self.extra:\n            acc += a\n        return acc\n",
     "from functools import partial\nclass D:\n    def filters(self):\n        master = []\n        master.extend(self.settings)\n        return delegate(partial(self._apply, master))\n    def _apply(self, master, pkg):\n        acc = list(master)\n        for a in self.extra:\n            acc += a\n        return acc\n"),
    (_gen_call, "def work(xs):\n    for x in xs:\n        handle(x)\n    yield from ()\ndef trigger(xs):\n    work(xs)\n", "def work(xs):\n    for x in xs:\n        handle(x)\n    return ()\ndef trigger(xs):\n    work(xs)\n"),
]


def run_all():
    n, fails = run()
    for fn, bad, good in PROG:
        name = getattr(fn, "__name__", "program-lint")
        n += 1
        try:
            if not fn(bad):
                fails.append(f"{name}: positive example not matched")
            if fn(good):
                fails.append(f"{name}: repaired example still matched")
        except Exception as e:  # noqa
            fails.append(f"{name}: {type(e).__name__}: {e}")
    return n, fails


def _fi(fn):
    def run_(src):
        P, mi = _mini(src)
        return [x for f in mi.funcs.values() if ".<locals>." not in f.qual for x in fn(P, f)]
    return run_


from . import latebind, iterreuse, escape, argbind, memokey as _mk, procstatus  # noqa: E402

FN += [
    (lints.strip_charset, "def f(pathname, filesdir):\n    return pathname.lstrip(filesdir)\n", "def f(pathname, filesdir):\n    return pathname[len(filesdir):] if pathname.startswith(filesdir) else pathname\n"),
    (lints.unused_result, "def f(a):\n    idepend_failures = check(a)\n    failures = other(a)\n    if failures:\n        return failures\n", "def f(a):\n    failures = check(a)\n    if failures:\n        return failures\n"),
    (lambda n: [(c, "t", "m") for c, *_ in latebind.findings(n)], "def f(tiers):\n    out = []\n    for sub in tiers:\n        out.append(lambda base: base + sub)\n    return out\n",
     "def f(tiers):\n    out = []\n    for sub in tiers:\n        out.append(lambda base, sub=sub: base + sub)\n    return out\n"),
    (lambda n: [(x[0], "t", "m") for x in _mk.findings(n) if x[4]], "def f(self, repo, pkg, memo):\n    if pkg.key in memo:\n        return memo[pkg.key]\n    r = memo[pkg.key] = compute(repo, pkg)\n    return r\n",
     "def f(self, repo, pkg, memo):\n    if pkg in memo:\n        return memo[pkg]\n    r = memo[pkg] = compute(repo, pkg)\n    return r\n"),
]
PROG += [
    (_fi(lambda P, f: iterreuse.findings(P, f)), "def f(xs):\n    toks = (x.strip() for x in xs)\n    a = list(toks)\n    b = list(toks)\n    return a, b\n", "def f(xs):\n    toks = [x.strip() for x in xs]\n    a = list(toks)\n    b = list(toks)\n    return a, b\n"),
    (_fi(lambda P, f: escape.findings(P, f)), "def f(rows):\n    cur = {}\n    for r in rows:\n        cur[r] = 1\n        yield cur\n        cur.clear()\n", "def f(rows):\n    for r in rows:\n        cur = {r: 1}\n        yield cur\n"),
    (_fi(lambda P, f: argbind.mismatches(P, f)), "def target(pattern, case_sensitive=True, negate=False, match=False):\n    return pattern\ndef caller(p, negate):\n    return target(p, negate)\n",
     "def target(pattern, case_sensitive=True, negate=False, match=False):\n    return pattern\ndef caller(p, negate):\n    return target(p, negate=negate)\n"),
]

FN += [
    (lambda n: lints.regex_punctuation_range(n), "import re\ndef f(s):\n    return re.compile(r'^[A-Za-z0-9_+-.]+$').match(s)\n", "import re\ndef f(s):\n    return re.compile(r'^[A-Za-z0-9_+.-]+$').match(s)\n"),
]
PROG += [
    (lambda src: lints.implicit_concat_in_collection(ast.parse(src), src), 'DIRS = (\n    "/etc",\n    "/opt"\n    "/home",\n    "/var",\n)\n', 'DIRS = (\n    "/etc",\n    "/opt",\n    "/home",\n    "/var",\n)\n'),
]


def _attr_memo(src):
    from . import effects, memokey
    P, mi = _mini(src)
    return [x for f in mi.funcs.values() for x in memokey.attr_memo_param_omitted(effects.engine(P).fx(f))]


PROG += [
    (_attr_memo, "class D:\n    def render(self, func):\n        if self._rendered is not None:\n            return self._rendered\n        self._rendered = ' '.join(func(x) for x in self.items)\n        return self._rendered\n",
     "class D:\n    def render(self, func):\n        return ' '.join(func(x) for x in self.items)\n"),
    (_fi(lambda P, f: iterreuse.findings(P, f)), "def f(cats, names):\n    cats_iter = iter(cats)\n    return [(c, p) for p in names for c in cats_iter]\n", "def f(cats, names):\n    cats_iter = iter(cats)\n    return [(c, p) for c in cats_iter for p in names]\n"),
]

FN += [
    (lints.splitext_never_equal, "import os\ndef f(names):\n    return [x for x in names if os.path.splitext(x)[1] in ('.bak', '~')]\n", "import os\ndef f(names):\n    return [x for x in names if x.endswith(('.bak', '~'))]\n"),
]

FN += [
    (lints.publish_failure_as_status, "import os\ndef f(tmp, final, log):\n    try:\n        os.rename(tmp, final)\n    except OSError as e:\n        log.error(f'failed: {e}')\n        return False\n    return True\n",
     "import os\ndef f(tmp, final, log):\n    try:\n        os.rename(tmp, final)\n    except OSError as e:\n        log.error(f'failed: {e}')\n        raise\n    return True\n"),
]
PROG += [
    (_fi(lambda P, f: iterreuse.findings(P, f)), "import typing\ndef f(entry, keywords: typing.Iterable[str]):\n    new = replace(entry, keywords=tuple(keywords))\n    raw = ' '.join(keywords)\n    return new, raw\n",
     "import typing\ndef f(entry, keywords: typing.Iterable[str]):\n    keywords = tuple(keywords)\n    new = replace(entry, keywords=keywords)\n    raw = ' '.join(keywords)\n    return new, raw\n"),
]

def _fi_all(fn):
    def run_(src):
        P, mi = _mini(src)
        return [x for f in mi.funcs.values() for x in fn(P, f)]
    return run_


PROG += [
    (_fi_all(lambda P, f: iterreuse.findings(P, f)), "def g(first, rest):\n    def f(arg, *others):\n        if not others:\n            yield from arg\n            return\n        tails = f(*others)\n        for node in arg:\n            for node2 in tails:\n                yield node + node2\n    return list(f(first, *rest))\n",
     "def g(first, rest):\n    def f(arg, *others):\n        if not others:\n            yield from arg\n            return\n        for node in arg:\n            for node2 in f(*others):\n                yield node + node2\n    return list(f(first, *rest))\n"),
]

FN += [
    (lints.child_status_conjoined, "def f(cmd, name):\n    ret, output = spawn.spawn_get_output(cmd, collect_fds=(2,))\n    if ret and output:\n        raise IpcCommandError(f'{name} failed: {output[0]}')\n",
     "def f(cmd, name):\n    ret, output = spawn.spawn_get_output(cmd, collect_fds=(2,))\n    if ret:\n        raise IpcCommandError(f'{name} failed: {output[:1]}')\n"),
]

FN += [
    (lints.quantity_or_default, "import time\ndef f(t, fsobj):\n    t.mtime = fsobj.mtime or time.time()\n", "import time\ndef f(t, fsobj):\n    t.mtime = fsobj.mtime if fsobj.mtime is not None else time.time()\n"),
]

FN += [
    (lints.guard_attr_deviates, "def to_wire(u, w):\n    if u.a is not None:\n        w['a'] = u.a\n    if u.b is not None:\n        w['b'] = str(u.b)\n    if u.c is not None:\n        w['c'] = u.c\n    if u.c is not None:\n        w['d'] = u.d.value\n",
     "def to_wire(u, w):\n    if u.a is not None:\n        w['a'] = u.a\n    if u.b is not None:\n        w['b'] = str(u.b)\n    if u.c is not None:\n        w['c'] = u.c\n    if u.d is not None:\n        w['d'] = u.d.value\n"),
]

FN += [
    (lints.unbalanced_peer_args, "class C:\n    def __ge__(self, other):\n        return ver_cmp(self.version, self.revision, other.version, self.revision) >= 0\n",
     "class C:\n    def __ge__(self, other):\n        return ver_cmp(self.version, self.revision, other.version, other.revision) >= 0\n"),
]

FN += [
    (lints.id_in_hash, "class B:\n    def __hash__(self):\n        return hash((self.negate, tuple(map(id, self.restrictions))))\n", "class B:\n    def __hash__(self):\n        return hash((self.negate, tuple(self.restrictions)))\n"),
    (lints.set_op_with_sequence_default, "def f(seen, groups, i):\n    seen |= groups.get(i, ())\n", "def f(seen, groups, i):\n    seen.update(groups.get(i, ()))\n"),
    (lints.loop_flag_overwritten, "def f(entries):\n    changed = False\n    for e in entries:\n        if changed := e.old != e.new:\n            e.rewrite()\n    if not changed:\n        return None\n    return entries\n",
     "def f(entries):\n    changed = False\n    for e in entries:\n        if e.old != e.new:\n            changed = True\n            e.rewrite()\n    if not changed:\n        return None\n    return entries\n"),
    (lints.loop_flag_overwritten, "def f(groups):\n    keep_going = True\n    while keep_going:\n        keep_going = False\n        for k, v in groups.items():\n            l = expand(v)\n            keep_going = any(x[0] == '@' for x in l)\n            groups[k] = l\n",
     "def f(groups):\n    keep_going = True\n    while keep_going:\n        keep_going = False\n        for k, v in groups.items():\n            l = expand(v)\n            if any(x[0] == '@' for x in l):\n                keep_going = True\n            groups[k] = l\n"),
    (lints.identity_on_quantity, "def f(cset, bad):\n    return [x for x in cset if x.uid is bad]\n", "def f(cset, bad):\n    return [x for x in cset if x.uid == bad]\n"),
    (lints.conditional_reraise, "def flush(self):\n    f = None\n    try:\n        f = Atomic(self.path)\n        f.write(self.data)\n        f.close()\n    except Exception:\n        if f is not None:\n            f.discard()\n            raise\n",
     "def flush(self):\n    f = None\n    try:\n        f = Atomic(self.path)\n        f.write(self.data)\n        f.close()\n    except Exception:\n        if f is not None:\n            f.discard()\n        raise\n"),
]

FN += [
    (lints.loop_variable_reused, "def f(files, updates, out):\n    for fname in files:\n        for count, fname in updates[fname]:\n            out.append(count)\n        out.append(fname)\n",
     "def f(files, updates, out):\n    for fname in files:\n        for count, pending in updates[fname]:\n            out.append(count)\n        out.append(fname)\n"),
    (lints.item_error_around_loop, "def f(pkgs, keep):\n    try:\n        for pkg in pkgs:\n            keep.update(pkg.distfiles)\n    except AttributeError:\n        pass\n",
     "def f(pkgs, keep):\n    for pkg in pkgs:\n        try:\n            keep.update(pkg.distfiles)\n        except AttributeError:\n            pass\n"),
]

FN += [
    (lints.loop_target_clobbers, "def f(ns):\n    repo = ns.domain.pick()\n    for repo in ns.domain.installed_repos:\n        for pkg in repo:\n            keep(pkg)\n    return list(repo.itermatch(ns.restrict))\n",
     "def f(ns):\n    repo = ns.domain.pick()\n    for irepo in ns.domain.installed_repos:\n        for pkg in irepo:\n            keep(pkg)\n    return list(repo.itermatch(ns.restrict))\n"),
]

FN += [
    (lints.mode_mask_drops_special_bits, "def gen(stat):\n    mode = stat.st_mode & 0o777\n    return mode\n", "from stat import S_IMODE\ndef gen(stat):\n    mode = S_IMODE(stat.st_mode)\n    return mode\n"),
]
PROG += [
    (_cls(lambda P, K: lints.keyerror_on_defaultdict(K)), "from collections import defaultdict\nclass D:\n    def __init__(self):\n        self._dict = defaultdict(list)\n    def render(self, key):\n        try:\n            items = self._dict[key]\n        except KeyError:\n            items = self._globals\n        return items\n",
     "from collections import defaultdict\nclass D:\n    def __init__(self):\n        self._dict = defaultdict(list)\n    def render(self, key):\n        items = self._dict.get(key)\n        if items is None:\n            items = self._globals\n        return items\n"),
]

FN += [
    (lints.copyfileobj_length_confusion, "import shutil\ndef f(src, dst, start):\n    shutil.copyfileobj(src, dst, start)\n", "def f(src, dst, start):\n    dst.write(src.read(start))\n"),
]
