"""Child processes whose exit status nobody looks at.

``subprocess.run(cmd)`` without ``check=True`` and without reading ``.returncode``; ``subprocess.Popen(...)`` (also as a
context manager) whose ``returncode`` / ``wait()`` / ``poll()`` result is never read; ``os.system`` / ``subprocess.call``
as bare statements.  A truncated download fed through an unchecked decompressor is accepted whenever the consumer of
its output happens to be content."""
from __future__ import annotations

import ast

from . import astutil as A
from .model import dotted


def _truthy_kw(call, name):
    for k in call.keywords:
        if k.arg == name:
            return not (isinstance(k.value, ast.Constant) and not k.value.value)
    return False


def findings(fn_node):
    out = []
    body = list(A.body_walk(fn_node, into_nested=True))
    for c in [n for n in body if isinstance(n, ast.Call)]:
        d = dotted(c.func) or ""
        last = d.split(".")[-1]
        if d in ("subprocess.run", "run") and d != "run" or d == "subprocess.run":
            if _truthy_kw(c, "check"):
                continue
            holder = _bound_name(c)
            if holder and _reads(body, holder, ("returncode", "check_returncode")):
                continue
            out.append((c, "subprocess.run(...) without check=True; its returncode is never read"))
        elif d in ("subprocess.Popen",):
            holder = _bound_name(c)
            if holder and (_reads(body, holder, ("returncode",)) or _call_result_used(body, holder, ("wait", "poll", "communicate"))):
                continue
            out.append((c, "subprocess.Popen(...) whose returncode / wait() result is never read"))
        elif d in ("os.system", "subprocess.call") or last in ("spawn", "spawn_bash", "spawn_sandbox", "spawn_fakeroot") and d.split(".")[0] in ("spawn", "process", "snakeoil", last):
            par = getattr(c, "_parent", None)
            if isinstance(par, ast.Expr):
                out.append((c, f"{d}(...) as a bare statement: the status is dropped"))
    return out


def _bound_name(call):
    p = getattr(call, "_parent", None)
    if isinstance(p, ast.Assign) and len(p.targets) == 1 and isinstance(p.targets[0], ast.Name):
        return p.targets[0].id
    if isinstance(p, ast.withitem) and isinstance(p.optional_vars, ast.Name):
        return p.optional_vars.id
    if isinstance(p, ast.NamedExpr) and isinstance(p.target, ast.Name):
        return p.target.id
    return None


def _reads(body, name, attrs):
    for n in body:
        if isinstance(n, ast.Attribute) and n.attr in attrs and isinstance(n.value, ast.Name) and n.value.id == name:
            return True
    return False


def _call_result_used(body, name, methods):
    for n in body:
        if isinstance(n, ast.Call) and isinstance(n.func, ast.Attribute) and n.func.attr in methods and isinstance(n.func.value, ast.Name) and n.func.value.id == name:
            par = getattr(n, "_parent", None)
            if not isinstance(par, ast.Expr):
                return True  # the result is compared / assigned / returned
            if n.func.attr == "communicate":
                continue
    return False
