"""Bash accumulators that start from whatever the caller (or the previous request) left behind.

Bash variables are dynamically scoped: ``x+=( item )`` in a function that neither declares ``x`` local nor assigns it
first appends to whichever ``x`` is visible at run time — a global of the sourced ebuild / eclass, a local of a caller
further up, or the value left by the previous command served by the same long-running daemon.  By the code base's own
convention UPPERCASE names are deliberate globals (INHERITED, E_DEPEND, PKGCORE_BLACKLIST_VARS ...); a lower-case
accumulator is function state and must be declared or reset in the function."""
from __future__ import annotations

import re

from . import bashlex as B

_DECL = ("local", "declare", "typeset", "readonly")
_ACC = re.compile(r"^([A-Za-z_][A-Za-z0-9_]*)\+=")
_SET = re.compile(r"^([A-Za-z_][A-Za-z0-9_]*)=")


def uninitialised_accumulators(src):
    """[(function, line, name)] and the number of accumulators looked at"""
    out, seen = [], 0
    for fname, fn in B.functions(src).items():
        try:
            cmds = B.commands(fn.body, fn.body_line)
        except Exception:
            continue
        declared = set()
        for c in cmds:
            w = list(c.assigns) + list(c.words)
            if not w:
                continue
            if w[0] in _DECL:
                for x in w[1:]:
                    if not x.startswith("-"):
                        declared.add(x.split("=")[0].split("+")[0])
            elif w[0] in ("for", "read", "mapfile", "readarray", "getopts") and len(w) > 1:
                declared.add(w[-1] if w[0] != "for" else w[1])
            else:
                m = _SET.match(w[0])
                if m:
                    declared.add(m.group(1))  # a plain assignment earlier in the function resets it
                m = _ACC.match(w[0])
                if m:
                    seen += 1
                    n = m.group(1)
                    if n not in declared and not n.isupper() and not (n.upper() == n):
                        out.append((fname, c.line, n))
    return out, seen
