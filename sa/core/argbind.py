"""Argument/parameter name agreement at resolved call sites.

Rule: when a call passes, *positionally*, a variable whose name is the name of one of the callee's parameters, it must
land on that parameter.  ``StrExactMatch(slot, negate)`` where the second parameter is ``case_sensitive`` and ``negate``
is a later one silently binds the negation flag to case sensitivity: both are booleans, nothing fails, and only inputs
that differ in the mis-bound aspect see it.  The check is purely structural (resolved callee signature vs argument
spelling) and is the classic "swapped / shifted arguments" lint, restricted to the case where the caller's own naming
states the intent."""
from __future__ import annotations

import ast

from .model import ClassInfo, FuncInfo, dotted


STATS = {}


def _signature(prog, callee):
    """(positional parameter names without self, all parameter names) or None"""
    if isinstance(callee, ClassInfo):
        owner, init = prog.lookup_attr(callee, "__init__")
        if not isinstance(init, FuncInfo):
            return None
        fn, drop = init.node, 1
    elif isinstance(callee, FuncInfo):
        fn = callee.node
        drop = 0
        if callee.cls is not None and not any(ast.unparse(d) == "staticmethod" for d in fn.decorator_list):
            drop = 1
    else:
        return None
    a = fn.args
    full = [x.arg for x in a.posonlyargs + a.args]
    pos = full[drop:]
    allp = pos + [x.arg for x in a.kwonlyargs]
    optional = set(full[len(full) - len(a.defaults):]) if a.defaults else set()
    optional |= {x.arg for x, d in zip(a.kwonlyargs, a.kw_defaults) if d is not None}
    return pos, allp, fn, optional


def mismatches(prog, fi: FuncInfo):
    """[(call node, arg index, argument name, parameter it lands on, callee description)]
    Only *optional-flag shifts* are reported: the parameter the value lands on and the parameter whose name the
    argument carries are both optional (have defaults) — a required parameter that happens to share a name with a
    local is a coincidence, a shifted optional flag is a mis-binding."""
    out = []
    mod = fi.module
    local = {a.arg for a in ast.walk(fi.node.args) if isinstance(a, ast.arg)} | {
        x.id for x in ast.walk(fi.node) if isinstance(x, ast.Name) and isinstance(x.ctx, ast.Store)}
    selfname = fi.node.args.args[0].arg if (fi.cls is not None and fi.node.args.args) else None
    for n in ast.walk(fi.node):
        if not isinstance(n, ast.Call):
            continue
        f = n.func
        callee, unbound_method = None, False
        if isinstance(f, ast.Name):
            callee = prog.resolve_name(mod, f.id)
        elif isinstance(f, ast.Attribute):
            if isinstance(f.value, ast.Name) and f.value.id == selfname and fi.cls is not None:
                _, callee = prog.lookup_attr(fi.cls, f.attr)
            else:
                d = dotted(f)
                if d and d.split(".")[0] in local:
                    continue  # a local object, not a module / class path
                callee = prog.resolve_name(mod, d) if d else None
                if isinstance(callee, FuncInfo) and callee.cls is not None:
                    decos = {ast.unparse(x) for x in callee.node.decorator_list}
                    if not decos & {"staticmethod", "classmethod"}:
                        unbound_method = True  # Class.method(self, ...): self passed explicitly
        sig = _signature(prog, callee)
        if sig is None:
            continue
        pos, allp, fn, optional = sig
        STATS["resolved"] = STATS.get("resolved", 0) + 1
        if unbound_method:
            pos = [fn.args.args[0].arg] + pos if fn.args.args else pos
        for i, a in enumerate(n.args):
            if isinstance(a, ast.Starred):
                break
            if i >= len(pos):
                break
            nm = a.id if isinstance(a, ast.Name) else (a.attr if isinstance(a, ast.Attribute) else None)
            if nm is None or nm == pos[i]:
                continue
            if nm in allp and nm != pos[i]:
                # the callee has a parameter of exactly this name, and it is not the one receiving the value;
                # not a finding when that parameter is *also* given explicitly (then the caller knows)
                given = {k.arg for k in n.keywords} | {pos[j] for j in range(min(len(n.args), len(pos)))}
                if nm in given:
                    continue
                if not (nm in optional and pos[i] in optional):
                    continue
                out.append((n, i, nm, pos[i], getattr(callee, "fq", str(callee))))
    return out
