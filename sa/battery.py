"""Sensitivity battery (thorough tier, DESIGN §2.9).

Each mutant is a source edit with an asserted anchor (the ``old`` text must occur exactly once in
the current tree, otherwise the mutant is *stale* and skipped); it is analysed as an in-memory
overlay of /repo's current tree — nothing is executed, nothing is written under /repo.  The rule
module must report a finding that was not present on the unmutated tree.  Twins are
behaviour-preserving edits that must NOT produce a new finding.  Seeded patches
(/verif/seeded/<id>*/patch.diff, written by independent sub-agents) are replayed the same way;
their expected outcome is recorded in meta.json ("detected": true|false)."""
from __future__ import annotations

import glob
import json
import os
import shutil
import subprocess
import tempfile
from concurrent.futures import ProcessPoolExecutor

from .core import report
from .core.model import Program

VERIF = report.VERIF


def _overlay_from_text(prog, m):
    rel = m["file"]
    path = os.path.join(prog.root, rel)
    if rel in prog.by_rel:
        src = prog.by_rel[rel].src
    elif rel in prog.bash:
        src = prog.bash[rel].src
    elif os.path.exists(path):
        src = open(path, encoding="utf-8").read()
    else:
        return None
    if src.count(m["old"]) != m.get("count", 1):
        return None
    new = src.replace(m["old"], m["new"])
    if rel.endswith(".py"):
        try:
            compile(new, rel, "exec")
        except SyntaxError:
            return "syntax"
    return {rel: new}


def _overlay_from_patch(prog, patch):
    """Apply a unified diff to copies of the touched files in a temp dir; return overlay or None."""
    txt = open(patch, encoding="utf-8").read()
    files = []
    for line in txt.splitlines():
        if line.startswith("+++ b/"):
            files.append(line[6:].strip())
    if not files:
        return None
    tmp = tempfile.mkdtemp(prefix="verif-ovl-")
    try:
        for rel in files:
            src = os.path.join(prog.root, rel)
            dst = os.path.join(tmp, rel)
            os.makedirs(os.path.dirname(dst), exist_ok=True)
            if os.path.exists(src):
                shutil.copy(src, dst)
        r = subprocess.run(["patch", "-p1", "-s", "-f", "--no-backup-if-mismatch", "-i", patch], cwd=tmp, capture_output=True, text=True)
        if r.returncode != 0:
            return None
        out = {}
        for rel in files:
            with open(os.path.join(tmp, rel), encoding="utf-8") as fh:
                out[rel] = fh.read()
        return out
    finally:
        shutil.rmtree(tmp, ignore_errors=True)


def _analyse(args):
    prop, modname, overlay, root = args
    import importlib

    mod = importlib.import_module(modname)
    base = _analyse.base if getattr(_analyse, "base_root", None) == root else None
    if base is None:
        base = Program(root)
        _analyse.base, _analyse.base_root = base, root
    ctx = None
    try:
        prog = Program(root, overlay=overlay, base=base)
        ctx = report.Ctx(prop, "quick", prog)
        from .core import generic
        try:
            mod.run(ctx)
        except report.AnalysisError:
            generic.hygiene(ctx)
            raise
        generic.hygiene(ctx)
        return {"keys": [f.key for f in ctx.findings], "error": None}
    except report.AnalysisError as e:
        return {"keys": [f.key for f in ctx.findings] if ctx else [], "error": str(e)}
    except Exception as e:  # noqa
        return {"keys": [], "error": f"internal {type(e).__name__}: {e}"}


def collect(prop, mod):
    items = []
    for m in getattr(mod, "MUTANTS", []):
        items.append(("mutant", m["name"], m))
    for m in getattr(mod, "TWINS", []):
        items.append(("twin", m["name"], m))
    for d in sorted(glob.glob(os.path.join(VERIF, "seeded", prop + "*"))):
        meta_p = os.path.join(d, "meta.json")
        patch = os.path.join(d, "patch.diff")
        if os.path.exists(meta_p) and os.path.exists(patch):
            meta = json.load(open(meta_p))
            if meta.get("obsolete"):
                continue  # no longer a defect on today's tree (a later fix removed the hazard); kept for the record
            items.append(("seeded", os.path.basename(d), {"patch": patch, "detected": meta.get("detected")}))
    kfp = os.path.join(VERIF, "known_findings.json")
    if os.path.exists(kfp):
        seen = set()
        for f in json.load(open(kfp)).get("findings", []):
            if f.get("status") == "fixed" and f.get("property") == prop and f.get("commit") and f["commit"] not in seen:
                seen.add(f["commit"])
                items.append(("revfix", f["commit"], {"commit": f["commit"]}))
    return items


def _overlay_reverse_commit(prog, commit):
    """Pre-fix text of the files a /repo fix commit touched, re-created on top of the current tree by reverse-applying
    that commit's diff (None when the commit is unknown or nothing changes)."""
    g = ["git", "-C", prog.root]
    files = subprocess.run(g + ["show", "--name-only", "--format=", commit], capture_output=True, text=True)
    if files.returncode != 0:
        return None
    tmp = tempfile.mkdtemp(prefix="verif-revfix-")
    try:
        rels = files.stdout.split()
        for rel in rels:
            src = os.path.join(prog.root, rel)
            if os.path.exists(src):
                dst = os.path.join(tmp, rel)
                os.makedirs(os.path.dirname(dst), exist_ok=True)
                shutil.copy(src, dst)
        diff = subprocess.run(g + ["diff", f"{commit}^", commit], capture_output=True, text=True).stdout
        subprocess.run(["patch", "-R", "-p1", "-s", "-f", "--no-backup-if-mismatch"], input=diff, cwd=tmp, capture_output=True, text=True)
        out = {}
        for rel in rels:
            pth = os.path.join(tmp, rel)
            if os.path.exists(pth):
                with open(pth, encoding="utf-8") as fh:
                    txt = fh.read()
                with open(os.path.join(prog.root, rel), encoding="utf-8") as fh:
                    if txt != fh.read():
                        out[rel] = txt
        return out or None
    finally:
        shutil.rmtree(tmp, ignore_errors=True)


def run(ctx, mod, jobs=16):
    prog = ctx.program
    prop = ctx.prop
    items = collect(prop, mod)
    base_keys = {f.key for f in ctx.findings}
    work, meta = [], []
    stale = 0
    # generated twins: the behaviour-preserving rewrites of sa/refactors.py applied to every file the rules look at
    from . import refactors
    try:
        rf_files = refactors.files_of(prop, refactors.load_props(), prog.root)
    except Exception:  # noqa: BLE001
        rf_files = []
    for rk in refactors.KINDS:
        try:
            ov_r = refactors.overlay_for(rf_files, rk, prog.root)
        except Exception:  # noqa: BLE001
            ov_r = None
        if ov_r:
            items.append(("gentwin", rk, {"overlay": ov_r}))
    for kind, name, m in items:
        if kind == "gentwin":
            work.append((prop, mod.__name__, m["overlay"], prog.root))
            meta.append((kind, name, m))
            continue
        if kind == "seeded":
            ov = _overlay_from_patch(prog, m["patch"])
        elif kind == "revfix":
            ov = _overlay_reverse_commit(prog, m["commit"])
        else:
            ov = _overlay_from_text(prog, m)
        if ov is None:
            stale += 1
            continue
        if ov == "syntax":
            raise report.AnalysisError(f"battery {kind} {name} does not compile")
        work.append((prop, mod.__name__, ov, prog.root))
        meta.append((kind, name, m))
    results = []
    if work:
        if len(work) == 1:
            results = [_analyse(work[0])]
        else:
            with ProcessPoolExecutor(max_workers=min(jobs, len(work))) as ex:
                results = list(ex.map(_analyse, work))
    killed = survived = noisy = silent = seeded_det = seeded_miss = rev_det = rev_tot = 0
    problems = []
    rows = []
    for (kind, name, m), r in zip(meta, results):
        new = sorted(set(r["keys"]) - base_keys)
        flagged = bool(new) or bool(r["error"])
        rows.append({"kind": kind, "name": name, "new_findings": new[:4], "error": r["error"]})
        if kind == "mutant":
            want = m.get("rule")
            ok = bool(new) and (want is None or any(k.startswith(f"{prop}.{want}|") for k in new))
            if ok:
                killed += 1
            else:
                survived += 1
                problems.append(f"mutant {name} survived (new={new[:2]} error={r['error']})")
        elif kind == "revfix":
            rev_tot += 1
            if new:
                rev_det += 1
            else:
                problems.append(f"reverting fix {name} is not noticed (error={r['error']})")
        elif kind == "gentwin":
            gen_tot = ctx.extra.get("generated_twins_total", 0) + 1
            ctx.extra["generated_twins_total"] = gen_tot
            if flagged:
                ctx.note(f"generated rewrite `{name}` changes the verdict: {new[:2] or r['error']}")
            else:
                ctx.extra["generated_twins_silent"] = ctx.extra.get("generated_twins_silent", 0) + 1
        elif kind == "twin":
            if flagged:
                noisy += 1
                problems.append(f"twin {name} raised {new[:2] or r['error']}")
            else:
                silent += 1
        else:
            if new:
                seeded_det += 1
            else:
                seeded_miss += 1
            exp = m.get("detected")
            if exp is True and not new:
                problems.append(f"seeded {name} expected detected but no new finding (error={r['error']})")
            if exp is False and new:
                ctx.note(f"seeded {name} recorded as undetected is now detected: {new[:2]}")
    ctx.extra.update(
        {
            "mutants_total": killed + survived,
            "mutants_killed": killed,
            "twins_total": silent + noisy,
            "twins_silent": silent,
            "seeded_total": seeded_det + seeded_miss,
            "seeded_detected": seeded_det,
            "reverted_fixes_total": rev_tot,
            "reverted_fixes_detected": rev_det,
            "battery_stale_skipped": stale,
            "battery_rows": rows,
        }
    )
    print(
        f"[{prop}] battery: mutants {killed}/{killed + survived} killed, twins {silent}/{silent + noisy} silent, "
        f"seeded {seeded_det}/{seeded_det + seeded_miss} detected, reverted fixes {rev_det}/{rev_tot} detected, stale {stale}, "
        f"generated rewrites {ctx.extra.get('generated_twins_silent', 0)}/{ctx.extra.get('generated_twins_total', 0)} silent"
    )
    if problems and not base_keys - {k for k in base_keys}:
        pass
    if problems:
        # a checker defect, never a verdict on pkgcore
        raise report.AnalysisError("sensitivity battery: " + "; ".join(problems[:5]))
